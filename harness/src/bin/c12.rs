//! C12: KES keys sign verifiably for exactly their current period.
//! Runs the real Sum{1..7}Kes and Sum{1..7}CompactKes through whole lives
//! (keygen, 2^d - 1 updates, then three update() calls too many — each must be refused AND
//! leave period, key bytes, to_pk and signing ability untouched). At every state: the oracle
//! (period, stable public key, signature verifies at t and at no other in-range
//! period, byte round trip, update fails exactly at the end, an erroring update and the
//! read-only calls change nothing) and, for the selected
//! states, a CASE with the classification of everything the real code produced
//! (see coq/theories/C12/Run.v).
#[path = "kes_shared/mod.rs"]
mod kes_shared;
use kes_shared::*;
use pallas_crypto::kes::summed_kes::*;
use verif_harness::*;

struct Ctx {
    rng: Rng,
    oracle_only: bool,
    cases: usize,
    states: u64,
    verifications: u64,
    samples: usize,
}

/// a second, unrelated key of the same type (period 0): its pk and a signature on message 1
struct Other { tree: Tree, pk: Vec<u8>, sig: Vec<u8> }

fn other_key<K: KesOps>() -> Other {
    let master = blake2b_256(&[b"c12-other-key", &[K::DEPTH as u8, K::COMPACT as u8]]);
    let tree = Tree::new(K::DEPTH, 1000 + K::DEPTH as i64, &master);
    let mut live = live_keygen::<K>(&master).expect("other keygen");
    let sig = match K::sign(&mut live.buf, &msg_bytes(1)) { Out::Ok((s, _)) => s, _ => vec![] };
    Other { tree, pk: live.pk, sig }
}

fn vname<K: KesOps>() -> &'static str { if K::COMPACT { "compact" } else { "sum" } }

fn fail<K: KesOps>(what: &str, k: i64, master: &B32, t: u32, text: String) {
    emit_oracle_fail(&format!("{}/{}", vname::<K>(), what),
        &format!("{} seed={} (k={}) after {} updates: {}", K::NAME, hex(master), k, t, text));
}

/// emit_mode: 0 = no cases (oracle only), 1 = every period, 2 = boundary + random periods
fn history<K: KesOps>(ctx: &mut Ctx, k: i64, master: &B32, emit_mode: u32) {
    let d = K::DEPTH;
    let total: u32 = 1 << d;
    let m: u64 = 2 + ctx.rng.below(5);       // message signed in this history
    let m2: u64 = if ctx.rng.bool() { 0 } else { 1 }; // the "wrong" message
    let (mb, m2b) = (msg_bytes(m), msg_bytes(m2));
    let tree = Tree::new(d, k, master);
    let other = other_key::<K>();
    let mut cl = Classifier::new();
    let classify = emit_mode != 0 && !ctx.oracle_only && *master != [0u8; 32];
    if classify {
        cl.add_tree(&tree);
        cl.add_tree(&other.tree);
        cl.add_sigs(&tree, m);
        cl.add_sigs(&other.tree, 1);
    }
    let mut live = match live_keygen::<K>(master) {
        Ok(l) => l,
        Err(e) => { fail::<K>("keygen", k, master, 0, e); return; }
    };
    let pk = live.pk.clone();
    // error path of KesSk::from_bytes: a buffer of the wrong size is rejected and left untouched
    for wrong in [K::SIZE + 3, K::SIZE + 5, K::SIZE] {
        let mut wb: Vec<u8> = live.buf.iter().cycle().take(wrong).cloned().collect();
        let keep = wb.clone();
        let r = K::period(&mut wb);
        if !matches!(r, Out::Err(_)) || wb != keep {
            fail::<K>("from-bytes-wrong-size", k, master, 0, format!("from_bytes on {} bytes (expected {}): {} ; buffer changed: {}", wrong, K::SIZE + 4, out_string(&r, |p| format!("Ok, period {}", p)), wb != keep));
        }
    }
    let mut emit_at: Vec<u32> = vec![];
    if emit_mode == 2 {
        let h = total / 2;
        emit_at = vec![0, 1, h - 1, h, h + 1, total - 2, total - 1, h / 2 - 1, h / 2, h + h / 2 - 1, h + h / 2];
        for _ in 0..3 { emit_at.push(ctx.rng.below(total as u64) as u32); }
    }
    let mut prev_sig: Option<Vec<u8>> = None;
    // every period, then three more update() calls at the last period (each must be refused
    // and must leave the key exactly as it was)
    let mut steps: Vec<(u32, u32)> = (0..total).map(|t| (t, 0)).collect();
    for r in 1..=3 { steps.push((total - 1, r)); }
    for (t, refused) in steps {
        ctx.states += 1;
        let before = live.buf.clone();
        // ---- period ----
        let per = K::period(&mut live.buf);
        match &per { Out::Ok(p) if *p == t => {}, _ => fail::<K>("period", k, master, t, format!("get_period = {}", out_string(&per, |p| p.to_string()))) }
        if live.buf[K::SIZE..] != t.to_be_bytes() {
            fail::<K>("period-bytes", k, master, t, format!("trailing bytes {}", hex(&live.buf[K::SIZE..])));
        }
        // ---- public key ----
        let topk = K::to_pk(&mut live.buf);
        match &topk { Out::Ok(p) if *p == pk => {}, _ => fail::<K>("pk-stable", k, master, t, format!("to_pk = {} but keygen returned {}", out_string(&topk, |p| hex(p)), hex(&pk))) }
        // ---- sign ----
        let (sig, rt) = match K::sign(&mut live.buf, &mb) {
            Out::Ok(x) => x,
            o => { fail::<K>("sign", k, master, t, out_string(&o, |_| String::new())); return; }
        };
        if !rt || sig.len() != K::SIG_SIZE {
            fail::<K>("sig-roundtrip", k, master, t, format!("sig={} from_bytes(to_bytes) differs or wrong size {}", hex(&sig), sig.len()));
        }
        if live.buf != before {
            fail::<K>("readonly-op-changes-key", k, master, t, format!("get_period/to_pk/sign changed the key buffer from {} to {}", hex(&before), hex(&live.buf)));
        }
        // ---- verification at the in-range periods ----
        let mut periods: Vec<u32> = if d <= 4 { (0..total).collect() } else {
            let mut v = vec![t, t.wrapping_sub(1), t + 1, 0, total - 1];
            for j in 0..d { v.push(t ^ (1 << j)); }
            for _ in 0..2 { v.push(ctx.rng.below(total as u64) as u32); }
            v.retain(|p| *p < total);
            v.sort(); v.dedup(); v
        };
        if d <= 4 { periods.sort(); }
        let mut sigs: Vec<Vec<u8>> = vec![sig.clone()];
        // (period, pk bytes, message number, index into sigs, verdict)
        let mut vexps: Vec<(u32, Vec<u8>, u64, usize, bool)> = vec![];
        let mut gv: Vec<bool> = vec![]; // d <= 4: verdicts at periods 0..total in order
        for &p in &periods {
            ctx.verifications += 1;
            let v = K::verify(&sig, p, &pk, &mb);
            let ok = match &v { Out::Ok(b) => *b, _ => false };
            if let Out::Panic(pm) = &v { fail::<K>("verify-panic", k, master, t, format!("verify at period {} panicked: {}", p, pm)); }
            if p == t && !ok { fail::<K>("verify-own-period", k, master, t, format!("msg={} sig={} does not verify at its own period under pk {}", hex(&mb), hex(&sig), hex(&pk))); }
            if p != t && ok { fail::<K>("verify-other-period", k, master, t, format!("msg={} sig={} also verifies at period {} under pk {}", hex(&mb), hex(&sig), p, hex(&pk))); }
            if d <= 4 { gv.push(ok); } else { vexps.push((p, pk.clone(), m, 0, ok)); }
        }
        let selected = match emit_mode { 1 => true, 2 => emit_at.contains(&t), _ => false };
        if selected && classify {
            let vb = |o: Out<bool>| match o { Out::Ok(b) => b, _ => false };
            // wrong message, foreign public key, foreign signature
            vexps.push((t, pk.clone(), m2, 0, vb(K::verify(&sig, t, &pk, &m2b))));
            vexps.push((t, other.pk.clone(), m, 0, vb(K::verify(&sig, t, &other.pk, &mb))));
            sigs.push(other.sig.clone());
            vexps.push((t, pk.clone(), 1, 1, vb(K::verify(&other.sig, t, &pk, &msg_bytes(1)))));
            vexps.push((0, other.pk.clone(), 1, 1, vb(K::verify(&other.sig, 0, &other.pk, &msg_bytes(1)))));
            // tampered: public-key slots exchanged
            let mut tam = sig.clone();
            let j = ctx.rng.below(d as u64) as usize;
            if !K::COMPACT {
                let (a, b) = (64 + 64 * j, 96 + 64 * j);
                let tmp: Vec<u8> = tam[a..a + 32].to_vec();
                tam.copy_within(b..b + 32, a);
                tam[b..b + 32].copy_from_slice(&tmp);
            } else if d >= 2 {
                let j2 = (j + 1 + ctx.rng.below(d as u64 - 1) as usize) % d as usize;
                let (a, b) = (96 + 32 * j, 96 + 32 * j2);
                let tmp: Vec<u8> = tam[a..a + 32].to_vec();
                tam.copy_within(b..b + 32, a);
                tam[b..b + 32].copy_from_slice(&tmp);
            } else {
                tam.copy_within(64..96, 96); // sibling key := the leaf's own key
            }
            sigs.push(tam.clone());
            let si = sigs.len() - 1;
            vexps.push((t, pk.clone(), m, si, vb(K::verify(&tam, t, &pk, &mb))));
            let tp = ctx.rng.below(total as u64) as u32;
            vexps.push((tp, pk.clone(), m, si, vb(K::verify(&tam, tp, &pk, &mb))));
            // spliced: the low levels of the previous period's signature under the upper levels of this one
            if let Some(ps) = &prev_sig {
                let j = ctx.rng.below(d as u64) as usize;
                let cut = if K::COMPACT { 96 + 32 * j } else { 64 + 64 * j };
                let mut sp = ps[..cut].to_vec();
                sp.extend_from_slice(&sig[cut..]);
                sigs.push(sp.clone());
                let si = sigs.len() - 1;
                vexps.push((t, pk.clone(), m, si, vb(K::verify(&sp, t, &pk, &mb))));
                vexps.push((t - 1, pk.clone(), m, si, vb(K::verify(&sp, t - 1, &pk, &mb))));
            }
        }
        // ---- update (on a copy first, so the case records its outcome) ----
        let mut next = live.buf.clone();
        let upd = K::update(&mut next);
        let upd_ok = matches!(upd, Out::Ok(true));
        match &upd {
            Out::Ok(true) if t + 1 < total => {}
            Out::Ok(false) if t + 1 == total => {}
            Out::Ok(true) => fail::<K>("update-past-end", k, master, t, format!("update succeeded at the last period (after {} refused calls)", refused)),
            Out::Ok(false) => fail::<K>("update-early-fail", k, master, t, format!("update refused at period {} of {}", t, total)),
            o => fail::<K>("update-error", k, master, t, out_string(o, |_| String::new())),
        }
        // an update that returns an error must leave the whole key (buffer and period counter) untouched
        if !upd_ok && next != live.buf {
            let first = next.iter().zip(live.buf.iter()).position(|(a, b)| a != b).unwrap_or(0);
            fail::<K>("update-error-changes-state", k, master, t,
                format!("refused update call number {} at the last period changed the key: first difference at byte {} of {} (period bytes start at {}); before {} after {}",
                    refused + 1, first, next.len(), K::SIZE, hex(&live.buf), hex(&next)));
        }
        if selected && classify {
            let vx: Vec<String> = vexps.iter().map(|(p, pkb, mm, si, v)| format!("(V {} {} {} {} {})", p, cl.cls(pkb), mm, si, coq_bool(*v))).collect();
            let sg: Vec<String> = sigs.iter().map(|s| cl.slots(s)).collect();
            let term = format!("(Case {} {} {} {} {} {} {} {} {} {} {} {} {} {} {} [{}] [{}])",
                K::COMPACT as u32, d, coq_z(k), t, refused, m,
                cl.cls(&live.seed_after), cl.cls(&pk), cl.slots(&live.buf[..K::SIZE]),
                match &per { Out::Ok(p) => p.to_string(), _ => "(-1)".to_string() }, match &topk { Out::Ok(p) => cl.cls(p), _ => "KOther".to_string() }, cl.slots(&sig),
                coq_bool(rt), coq_bool(upd_ok), coq_list(&gv, |b| coq_bool(*b).to_string()), sg.join(";"), vx.join(";"));
            let tag = format!("{}-d{}-{}", vname::<K>(), d,
                if refused > 0 { "refused-update" } else if t == 0 { "fresh" } else if t + 1 == total { "last" } else if t == total / 2 { "half" } else if t + 1 == total / 2 { "before-half" } else { "mid" });
            emit_case(&tag, &term);
            ctx.cases += 1;
            if ctx.samples < 3 { ctx.samples += 1; emit_sample(&format!("{} seed={} t={} msg={} sig={}", K::NAME, hex(master), t, hex(&mb), hex(&sig))); }
        }
        prev_sig = Some(sig);
        // keep whatever the call left in the buffer, also when it was refused: the following
        // steps observe (period, to_pk, signature, slots) the key the caller is really left with
        live.buf = next;
        if upd_ok != (t + 1 < total) { break; }
    }
}

fn main() {
    let args = args();
    let mut ctx = Ctx { rng: Rng::new(args.seed), oracle_only: args.oracle_only, cases: 0, states: 0, verifications: 0, samples: 0 };
    let thorough = args.tier == "thorough";
    // the crate's own tests use the all-zero seed: oracle only (a zero seed is indistinguishable from a wiped slot)
    for d in 1..=4u32 {
        for compact in [false, true] { dispatch_kes!(compact, d, history, &mut ctx, 0, &[0u8; 32], 0); }
    }
    let mut k: i64 = 0;
    loop {
        k += 1;
        let mut master = [0u8; 32];
        master.copy_from_slice(&ctx.rng.bytes(32));
        if k % 7 == 0 { for b in master.iter_mut().skip(1) { *b = 0; } }
        if master == [0u8; 32] { master[0] = 1; } // the all-zero seed equals the wiping pattern: not a genuine secret
        if k % 11 == 0 { master = [0xff; 32]; master[31] = k as u8; }
        // depths 1..4: every period of both constructions
        for d in 1..=4u32 {
            for compact in [false, true] { dispatch_kes!(compact, d, history, &mut ctx, k, &master, 1); }
        }
        // depths 5..7: every period through the oracle, boundary + random periods through the model
        let deep: Vec<u32> = if thorough { vec![5, 6, 7] } else { vec![5 + ((k as u32 + args.seed as u32) % 3)] };
        for d in deep {
            for compact in [false, true] { dispatch_kes!(compact, d, history, &mut ctx, k, &master, 2); }
        }
        if ctx.oracle_only { if ctx.states as usize >= args.n { break; } } else if ctx.cases >= args.n { break; }
    }
    emit_stat("key_states_oracle", ctx.states);
    emit_stat("verifications_oracle", ctx.verifications);
    emit_stat("master_seeds", k as u64);
}
