(* C01 correspondence: a case is
     (values, encoder result (buffer after all values + filler),
      per-call decoder results for [kinds of the values ++ filler], final pos, final used_bits)
   as observed on the real Encoder / Decoder. *)
From PV Require Export Lib.Base Flat.Model Flat.Encoder Flat.RunLib.
Open Scope Z_scope.

Definition case : Type := (list val * outcome (list Z) * list (outcome dval) * Z * Z).

Definition run_case (vs : list val) : outcome (list Z) * list (outcome dval) * Z * Z :=
  match encode_seq vs with
  | Ok buf => let (rs, s) := run_script (map kind_of vs ++ [OFiller]) (mk_dec buf) in
              (Ok buf, rs, d_pos s, d_used s)
  | Err e => (Err e, [], 0, 0)
  | Panic p => (Panic p, [], 0, 0)
  end.

Definition case_out (c : case) := let '(vs, _, _, _, _) := c in run_case vs.

Definition case_ok (c : case) : bool :=
  let '(vs, eb, rs, pos, used) := c in
  let '(eb', rs', pos', used') := run_case vs in
  outcome_eqb (list_eqb Z.eqb) eb' eb && list_eqb (outcome_eqb dval_eqb) rs' rs
  && (pos' =? pos) && (used' =? used).
