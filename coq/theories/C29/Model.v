(* C29 model: the initiator machine (P2p/Initiator.v) and the responder machine
   (P2p/Responder.v), with every unwrap / index / overflow-checked arithmetic of
   behavior/initiator and behavior/responder explicit as [Panic].  This file
   only adds the property vocabulary. Definitions only. *)
From PV Require Export Lib.Base P2p.Proto P2p.Initiator P2p.Responder.
Open Scope Z_scope.

Definition panics {A} (o : outcome A) : Prop := exists k, o = Panic k.

(* usize / u32 limits of the configuration *)
Definition wf_cfg (c : cfg) : Prop := 0 <= max_peers c /\ 0 <= max_warm c /\ 0 <= max_hot c.
