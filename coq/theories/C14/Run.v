(* C14 correspondence: a case is (a, b, impl memeq, impl memcmp). *)
From PV Require Import Lib.Base C14.Model.
Open Scope Z_scope.
Definition case : Type := (list Z * list Z * bool * Z).
Definition case_out (c : case) : bool * Z :=
  let '(a, b, _, _) := c in (memeq a b, memcmp a b).
Definition case_ok (c : case) : bool :=
  let '(a, b, e, o) := c in Bool.eqb (memeq a b) e && (memcmp a b =? o).
