//! C33: phase-1 validation is total (never panics).
//! Structural mutations of the accepted fixtures of pallas-validate/tests (all five eras) are fed
//! to the real `validate_tx` and to every rule function of the era validator; a panic anywhere is
//! an oracle failure keyed by `<era>.<rule fn>:<panic class>`.
#[path = "../validate_fx.rs"]
mod vfx;
#[path = "../validate_common.rs"]
mod vc;
#[path = "../validate_mut.rs"]
mod vm;
#[path = "../validate_obs.rs"]
mod vo;
#[path = "../validate_abs.rs"]
mod va;
use vc::*;
use verif_harness::*;
use vfx::*;
use vo::*;

fn main() {
    let args = args();
    install_panic_hook();
    let mut profile = String::from("dev");
    let mut i = 0;
    while i < args.extra.len() { if args.extra[i] == "--profile" { profile = args.extra[i + 1].clone(); i += 1 } i += 1 }
    let mut rng = Rng::new(args.seed ^ if profile == "release" { 0x5151 } else { 0 });
    let fixtures = all_fixtures();
    let muts = vm::all_mutators();
    // lift every fixture once
    let mut base: Vec<(&'static str, Scen)> = vec![];
    for (name, fx) in &fixtures {
        fx(&mut |tx, utxos, env, cs| { base.push((name, lift(tx, utxos, env, cs))) });
    }
    // corpus: minimised / past failing scenarios are replayed first
    let mut corpus: Vec<(&'static str, Scen)> = vec![];
    let cdir = std::path::Path::new(&std::env::var("VERIF_DIR").unwrap_or("/verif".into())).join("corpus/C33");
    if let Ok(rd) = std::fs::read_dir(&cdir) {
        let mut files: Vec<_> = rd.filter_map(|e| e.ok()).map(|e| e.path()).collect(); files.sort();
        for f in files { if let Ok(txt) = std::fs::read_to_string(&f) { for l in txt.lines() { if let Some(x) = scen_parse(l, &base, &clone_scen) { corpus.push(x) } } } }
    }
    emit_stat("corpus_scenarios", corpus.len() as u64);
    let mut n_undecodable = 0u64; let mut n_run = 0u64; let mut n_accept = 0u64; let mut n_panic = 0u64;
    let mut seen = std::collections::HashSet::new();
    let nfix = base.len() + corpus.len();
    let total = args.n + nfix;
    for it in 0..total {
        // the unmutated fixtures and the corpus first
        let (fname, b) = if it < base.len() { (&base[it].0, &base[it].1) } else if it < nfix { (&corpus[it - base.len()].0, &corpus[it - base.len()].1) }
                         else { let k = rng.below(base.len() as u64) as usize; (&base[k].0, &base[k].1) };
        let mut s = clone_scen(b);
        if it < nfix && it >= base.len() { s.trail.push("corpus".into()) }
        if it >= nfix {
            let k = 1 + rng.below(3);
            let mut applied = 0; let mut tries = 0;
            while applied < k && tries < 40 {
                tries += 1;
                let (mn, m) = rng.pick(&muts);
                if m(&mut s, &mut rng) { s.trail.push(mn.to_string()); applied += 1 }
            }
            if rng.chance(2, 5) && vm::resign(&mut s, &mut rng) { s.trail.push("resign".into()) }
        }
        let trail = s.trail.join("+");
        let r = materialize(&s, |tx, metx, utxos, env| {
            let o = observe(&tx, metx, utxos, env, &s.cs, s.counts);
            let term = if args.oracle_only { String::new() } else {
                let bw: Vec<pallas_primitives::byron::Twit> = if let AnyTx::Byron(p) = &tx { p.witness.iter().cloned().collect() } else { vec![] };
                format!("({},{},{},{},{},{})", coq_bool(profile != "release"), va::tx_term(&tx, metx, utxos, env, &o), va::utxo_term(utxos, &bw), va::env_term(env),
                        o.e2e.coq(), coq_list(&o.checks, |c| c.1.coq()))
            };
            (fam_name(&tx), o, term)
        });
        let Some((fam, o, term)) = r else { n_undecodable += 1; continue };
        n_run += 1;
        if o.e2e == Oc::Ok { n_accept += 1 }
        if !args.oracle_only {
            let tag = if it < base.len() { format!("{}:fixture", fam) } else if it < nfix { format!("{}:corpus", fam) }
                      else { format!("{}:{}", fam, match &o.e2e { Oc::Ok => "mutant-accepted".to_string(), Oc::Err(c) => format!("mutant-err{}", c / 100 * 100), Oc::Panic(_) => "mutant-panic".to_string() }) };
            emit_case(&tag, &term);
        }
        let mut any = false;
        for (cn, c) in &o.checks {
            if let Oc::Panic(m) = c {
                any = true;
                let mut p = m.split('@');
                let key = format!("{}.{}:{}@{}", fam, cn, p.next().unwrap_or(""), p.next().unwrap_or(""));
                if seen.insert(key.clone()) || rng.chance(1, 50) {
                    emit_oracle_fail(&key, &format!("profile={} mutators={} rule={} panic={} {}", profile, trail, cn, m, scen_text(&s, fname)));
                }
            }
        }
        if let Oc::Panic(m) = &o.e2e {
            n_panic += 1;
            if !any {
                let mut p = m.split('@');
                let key = format!("{}.validate_tx:{}@{}", fam, p.next().unwrap_or(""), p.next().unwrap_or(""));
                if seen.insert(key.clone()) || rng.chance(1, 50) {
                    emit_oracle_fail(&key, &format!("profile={} mutators={} rule=validate_tx panic={} {}", profile, trail, m, scen_text(&s, fname)));
                }
            }
        }
        if it < 3 + nfix && it >= nfix { emit_sample(&format!("fixture={} mutators={} e2e={:?}", fname, trail, o.e2e)); }
    }
    emit_stat("cases_run", n_run);
    emit_stat("undecodable_mutants_dropped", n_undecodable);
    emit_stat("accepted", n_accept);
    emit_stat("e2e_panics", n_panic);
}

