#!/usr/bin/env python3
"""Edit KNOWN_FINDINGS.json atomically (never called by a check).
  vp/known.py finding <ID> <key> <what...>     record a genuine defect that is NOT repaired
  vp/known.py fixed   <ID> <commit> <what...>  record a repaired defect (suppresses nothing)
"""
import fcntl, json, os, sys
V = os.path.dirname(os.path.dirname(os.path.abspath(__file__)))
P = os.path.join(V, "KNOWN_FINDINGS.json")
kind, pid, k = sys.argv[1], sys.argv[2], sys.argv[3]
what = " ".join(sys.argv[4:])
with open(os.path.join(V, ".known.lock"), "w") as lk:
    fcntl.flock(lk, fcntl.LOCK_EX)
    d = json.load(open(P)) if os.path.exists(P) else {"findings": [], "fixed": []}
    if kind == "finding":
        d["findings"] = [f for f in d["findings"] if not (f["property"] == pid and f["key"] == k)]
        d["findings"].append({"property": pid, "key": k, "what": what})
    elif kind == "fixed":
        line = "fixed: property=%s %s %s" % (pid, k, what)
        if line not in d["fixed"]:
            d["fixed"].append(line)
    else:
        sys.exit("usage")
    d["findings"].sort(key=lambda f: (f["property"], f["key"]))
    json.dump(d, open(P, "w"), indent=1)
print("ok")
