(* C07 correspondence: the harness records what the real pallas code returned; [case_ok]
   recomputes it with the model.
     CCmp a b o            Ord::cmp(a, b) as -1/0/1, o also drives PartialEq (a == b  <->  o = 0)
     CCodec d enc res pos  minicbor::to_vec(d) and the decode of those bytes (result, consumed)
     CDecode bs res pos    decode of arbitrary (mutated / hand-written) bytes
     CIndex tag anyc res   Constr::constr_index(), None = panic *)
From PV Require Import Lib.Base Cbor.Item Cbor.Enc Cbor.Dec Cbor.Api C07.Model.
Open Scope Z_scope.

Inductive dout : Type := ROk (d : pdata) | REoi | RErr | RPanic.

Inductive case : Type :=
| CCmp (a b : pdata) (o : Z)
| CCodec (d : pdata) (enc : list Z) (res : dout) (pos : Z)
| CDecode (bs : list Z) (res : dout) (pos : Z)
| CIndex (tag : Z) (anyc : option Z) (res : option Z).

Definition ord_z (c : comparison) : Z := match c with Lt => -1 | Eq => 0 | Gt => 1 end.

Definition opt_eqb (a b : option Z) : bool :=
  match a, b with Some x, Some y => x =? y | None, None => true | _, _ => false end.

Definition bigint_seqb (a b : bigint) : bool :=
  match a, b with
  | BInt x, BInt y => x =? y
  | BigUInt x, BigUInt y => list_eqb Z.eqb x y
  | BigNInt x, BigNInt y => list_eqb Z.eqb x y
  | _, _ => false
  end.

Section ListEq.
  Context {A : Type} (eqb : A -> A -> bool).
  Fixpoint leqb (l1 l2 : list A) : bool :=
    match l1, l2 with
    | [], [] => true
    | x :: r1, y :: r2 => eqb x y && leqb r1 r2
    | _, _ => false
    end.
End ListEq.

(* structural equality (NOT the library's ==): same tags, same flags, same representation *)
Fixpoint pdata_seqb (a b : pdata) {struct a} : bool :=
  match a, b with
  | PConstr t1 c1 i1 f1, PConstr t2 c2 i2 f2 =>
    (t1 =? t2) && opt_eqb c1 c2 && Bool.eqb i1 i2 && leqb pdata_seqb f1 f2
  | PMap i1 k1, PMap i2 k2 =>
    Bool.eqb i1 i2 &&
    leqb (fun p q => let '(pk, pv) := p in let '(qk, qv) := q in pdata_seqb pk qk && pdata_seqb pv qv) k1 k2
  | PArray i1 x1, PArray i2 x2 => Bool.eqb i1 i2 && leqb pdata_seqb x1 x2
  | PBigInt x, PBigInt y => bigint_seqb x y
  | PBytes x, PBytes y => list_eqb Z.eqb x y
  | _, _ => false
  end.

(* model result of a decode + number of bytes consumed (0 when it fails) *)
Definition model_decode (bs : list Z) : dout * Z :=
  match decode_pdata bs with
  | DOk (d, r) => (ROk d, len bs - len r)
  | DEoi => (REoi, 0)
  | DErr => (RErr, 0)
  end.

Definition dout_eqb (a b : dout) : bool :=
  match a, b with
  | ROk x, ROk y => pdata_seqb x y
  | REoi, REoi | RErr, RErr | RPanic, RPanic => true
  | _, _ => false
  end.

Definition dec_ok (bs : list Z) (res : dout) (pos : Z) : bool :=
  let '(m, p) := model_decode bs in
  dout_eqb m res && match res with ROk _ => p =? pos | _ => true end.

Inductive out : Type :=
| OCmp (o : Z)
| OCodec (enc : list Z) (res : dout) (pos : Z)
| OIndex (res : option Z).

Definition case_out (c : case) : out :=
  match c with
  | CCmp a b _ => OCmp (ord_z (pdata_cmp a b))
  | CCodec d _ _ _ => let e := enc_pdata d in let '(m, p) := model_decode e in OCodec e m p
  | CDecode bs _ _ => let '(m, p) := model_decode bs in OCodec [] m p
  | CIndex t c _ => OIndex (constr_index t c)
  end.

Definition case_ok (c : case) : bool :=
  match c with
  | CCmp a b o => ord_z (pdata_cmp a b) =? o
  | CCodec d enc res pos => list_eqb Z.eqb (enc_pdata d) enc && dec_ok enc res pos
  | CDecode bs res pos => dec_ok bs res pos
  | CIndex t c res => opt_eqb (constr_index t c) res
  end.
