#!/usr/bin/env python3
"""Regenerate corpus/C15/golden.txt from the Gallina reference (coq/theories/Fixed/Model.v).

    python3 corpus/C15/make_golden.py        (needs Fixed/Model.vo built)

Lines: `exp <x> <result>`, `ln <x> <result|panic>`, `pow <base> <exponent> <result|panic>`; all
numbers are the `data` integers of a FixedDecimal at precision 34.  The harness replays every line
against pallas-math (oracle: digit-for-digit equality) AND sends it to Coq as a case, so a stale
file cannot go unnoticed.  Inputs are fixed (seeded) so the file is reproducible."""
import os, random, re, subprocess, sys, tempfile
HERE = os.path.dirname(os.path.abspath(__file__))
COQ = os.path.join(HERE, "..", "..", "coq")
S = 10 ** 34
rnd = random.Random(15)

def mag(lo, hi):  # positive data with lo+35 .. hi+35 digits
    d = rnd.randint(lo + 35, hi + 35)
    return rnd.randint(10 ** (d - 1), 10 ** d - 1)

exps, lns, pows = [], [], []
exps += [0, 1, -1, S, -S, S + 1, S - 1, 2 * S, -2 * S, 12 * S // 10, S // 2, -S // 2, 78 * S, -78 * S, -79 * S, 100 * S, -100 * S]
exps += [mag(-30, 0) * rnd.choice([1, -1]) for _ in range(40)]
exps += [mag(0, 2) * rnd.choice([1, -1]) for _ in range(15)]
exps += [mag(-1, -1) * 12 // 10 for _ in range(10)]
E = 27182818284590452353602874043083282
lns += [1, 2, 10, S, S + 1, S - 1, E, E + 1, E - 1, 2 * S, 10 * S, S // 2, S // 10, 9 * S // 10, 0, -1, -S]
lns += [mag(-30, 0) for _ in range(25)] + [mag(0, 6) for _ in range(15)] + [S - mag(-3, -1) for _ in range(10)]
pows += [(0, 0), (0, S), (0, -S), (0, 5), (S, 12345), (12345, S), (-12345, S), (777, 0), (2 * S, 3 * S), (-2 * S, 3 * S),
         (-2 * S, 2 * S), (-2 * S, -3 * S), (3 * S, -2 * S), (10 * S, 5 * S), (9 * S // 10, S), (9 * S // 10, S // 2), (E, 2 * S)]
pows += [(S - mag(-3, -1), mag(-12, -1)) for _ in range(25)]
pows += [(mag(-2, 2), rnd.randint(-20, 20) * S) for _ in range(10)]
pows += [(-mag(-2, 1), rnd.randint(-15, 15) * S) for _ in range(10)]
pows += [(mag(-6, 3), mag(-6, 0) * rnd.choice([1, -1])) for _ in range(15)]

# boundary shapes of the stopping rules (see harness/src/bin/c15.rs): Taylor term == EPS, arguments
# strictly between e^n and e^n (1 + 1e-24); EK = ipow E k of the Gallina reference
TERM_EPS = [10000000000, 14142135623730950488017, 181712059283213965892571416, 22133638394006431995453967988]
for t in TERM_EPS:
    exps += [t - 1, t, t + 1, -(t - 1), -t]
EK = {0: S, 1: E, 2: 73890560989306502272304270960842165, 3: 200855369231876677409285281683986759,
      -1: 3678794411714423215955237792349248, -2: 1353352832366126918939995016483661}
for k, ek in EK.items():
    for r in (30, 24):
        d = ek // 10 ** r
        if d: lns += [ek + d, ek + d - 1]
lns += [1353352832366126918939995016483660]  # find_e's lower bracket fails here (x_ = -1 unit)
pows += [(S + 10 ** 4, 10 ** 6 * S), (S + 10 ** 10, 2 * S), (S + 10 ** 10, 10 ** 24 * S), (S + 10 ** 10, -10 ** 12 * S),
         (EK[3] + EK[3] // 10 ** 30, 2 * S)]

# ln arguments 1 + x_ where two successive convergents differ by exactly EPS (`diff < eps` decided by equality)
lns += [10000447778314706958567411759369823, 10031589263290062464956146087343882, 10225994822703482579091636520685699, 10698024528982578455093629776955104, 11492453308525698876727671595856442, 12579880394167374683090869072182477]

def z(n): return "(%d)" % n if n < 0 else "%d" % n
lines = ["From PV Require Import Lib.Base Fixed.Model.", "Open Scope Z_scope."]
for x in exps: lines.append("Eval vm_compute in (ref_exp %s)." % z(x))
for x in lns: lines.append("Eval vm_compute in (ref_ln %s)." % z(x))
for b, e in pows: lines.append("Eval vm_compute in (ref_pow %s %s)." % (z(b), z(e)))
with tempfile.TemporaryDirectory() as d:
    p = os.path.join(d, "golden_gen.v")
    open(p, "w").write("\n".join(lines) + "\n")
    out = subprocess.run(["coqc", "-noglob", "-Q", os.path.join(COQ, "theories"), "PV", p], capture_output=True, text=True, timeout=3000)
    if out.returncode != 0: sys.exit(out.stdout + out.stderr)
vals = re.findall(r"=\s*(.*?)\s*:\s*(?:Z|option Z|outcome Z)\b", out.stdout, flags=re.S)
assert len(vals) == len(exps) + len(lns) + len(pows), (len(vals), len(exps) + len(lns) + len(pows))
def num(v):
    v = v.strip()
    if v.startswith("None") or v.startswith("Panic"): return "panic"
    m = re.search(r"-?\d+", v.replace("(", "").replace(")", "").replace("Some", "").replace("Ok", ""))
    return m.group(0)
it = iter(vals)
with open(os.path.join(HERE, "golden.txt"), "w") as f:
    for x in exps: f.write("exp %d %s\n" % (x, num(next(it))))
    for x in lns: f.write("ln %d %s\n" % (x, num(next(it))))
    for b, e in pows: f.write("pow %d %d %s\n" % (b, e, num(next(it))))
print("wrote", len(vals), "golden vectors")
