(* CBOR core — laws of the byte-level primitives: big-endian arguments,
   [take], and heads ([dec_head] vs [enc_head]). These are the most reused
   lemmas: a model of [minicbor::Decoder::{u64,array,map,tag,bytes,..}] is a
   [dec_head] followed by a test on the major type. *)
From PV Require Import Lib.Base Cbor.Item Cbor.Enc Cbor.Dec.
Open Scope Z_scope.

(* ---- dres ---- *)
Lemma dbind_ok {A B} (x : dres A) (f : A -> dres B) b :
  dbind x f = DOk b -> exists a, x = DOk a /\ f a = DOk b.
Proof. destruct x as [a| |]; cbn; intros H; try discriminate. exists a. split; [reflexivity|exact H]. Qed.

Lemma dbind_eoi {A B} (x : dres A) (f : A -> dres B) :
  dbind x f = DEoi -> x = DEoi \/ exists a, x = DOk a /\ f a = DEoi.
Proof. destruct x as [a| |]; cbn; intros H; try discriminate; [right; exists a; auto | left; reflexivity]. Qed.

(* ---- lists of bytes ---- *)
Lemma bytes_wf_app a b : bytes_wf (a ++ b) <-> bytes_wf a /\ bytes_wf b.
Proof. unfold bytes_wf. apply Forall_app. Qed.

Lemma bytes_wfb_app a b : bytes_wfb (a ++ b) = bytes_wfb a && bytes_wfb b.
Proof. unfold bytes_wfb. apply forallb_app. Qed.

Lemma len_app {A} (a b : list A) : len (a ++ b) = len a + len b.
Proof. unfold len. rewrite app_length. lia. Qed.

Lemma len_nonneg {A} (a : list A) : 0 <= len a.
Proof. unfold len. lia. Qed.

Lemma len_cons {A} (x : A) (a : list A) : len (x :: a) = 1 + len a.
Proof. unfold len. cbn [length]. lia. Qed.

(* ---- big-endian ---- *)
Lemma be_bytes_length k n : length (be_bytes k n) = k.
Proof.
  revert n; induction k as [|k IH]; intros n; cbn [be_bytes]; [reflexivity|].
  rewrite app_length, IH. cbn. lia.
Qed.

Lemma be_bytes_wf k n : bytes_wf (be_bytes k n).
Proof.
  revert n; induction k as [|k IH]; intros n; cbn [be_bytes]; [constructor|].
  apply bytes_wf_app. split; [apply IH|]. constructor; [|constructor]. unfold byte. lia.
Qed.

Lemma be_val_snoc l b : be_val (l ++ [b]) = be_val l * 256 + b.
Proof. unfold be_val. rewrite fold_left_app. reflexivity. Qed.

Lemma be_val_bytes k n : 0 <= n < 256 ^ Z.of_nat k -> be_val (be_bytes k n) = n.
Proof.
  revert n; induction k as [|k IH]; intros n Hn.
  - cbn in *. unfold be_val. cbn. lia.
  - cbn [be_bytes]. rewrite be_val_snoc. rewrite IH; [lia|].
    rewrite Nat2Z.inj_succ, Z.pow_succ_r in Hn by lia. lia.
Qed.

Lemma be_val_range l : bytes_wf l -> 0 <= be_val l < 256 ^ len l.
Proof.
  induction l as [|b l IH] using rev_ind; intros Hl.
  - unfold be_val, len. cbn. lia.
  - apply bytes_wf_app in Hl as [Hl Hb]. inversion Hb as [|? ? Hb' _]; subst. unfold byte in Hb'.
    specialize (IH Hl). rewrite be_val_snoc, len_app.
    unfold len at 2. cbn [length]. change (Z.of_nat 1) with 1.
    rewrite Z.pow_add_r by (pose proof (len_nonneg l); lia). change (256 ^ 1) with 256. nia.
Qed.

Lemma be_bytes_val l : bytes_wf l -> be_bytes (length l) (be_val l) = l.
Proof.
  induction l as [|b l IH] using rev_ind; intros Hl; [reflexivity|].
  apply bytes_wf_app in Hl as [Hl Hb]. inversion Hb as [|? ? Hb' _]; subst. unfold byte in Hb'.
  rewrite app_length. cbn [length]. rewrite Nat.add_1_r. cbn [be_bytes].
  rewrite be_val_snoc.
  replace ((be_val l * 256 + b) / 256) with (be_val l) by lia.
  replace ((be_val l * 256 + b) mod 256) with b by lia.
  rewrite IH by exact Hl. reflexivity.
Qed.

Lemma width_bound_pow w : width_bound w = if width_eqb w W0 then 24 else 256 ^ Z.of_nat (width_nbytes w).
Proof. destruct w; reflexivity. Qed.

(* ---- take ---- *)
Lemma take_app h r : bytes_wf h -> take (len h) (h ++ r) = DOk (h, r).
Proof.
  intros Hh. unfold take. rewrite len_app.
  destruct (len h + len r <? len h) eqn:E; [pose proof (len_nonneg r); lia|].
  cbv zeta. replace (Z.to_nat (len h)) with (length h) by (unfold len; lia).
  rewrite firstn_app, Nat.sub_diag, firstn_all, firstn_O, app_nil_r.
  apply bytes_wfb_spec in Hh. rewrite Hh.
  rewrite skipn_app, Nat.sub_diag, skipn_all. reflexivity.
Qed.

Lemma take_app_n n h r : bytes_wf h -> n = len h -> take n (h ++ r) = DOk (h, r).
Proof. intros Hh ->. apply take_app, Hh. Qed.

Lemma take_sound n bs h r :
  0 <= n -> take n bs = DOk (h, r) -> bs = h ++ r /\ len h = n /\ bytes_wf h.
Proof.
  intros Hn. unfold take. destruct (len bs <? n) eqn:E; [discriminate|].
  destruct (bytes_wfb (firstn (Z.to_nat n) bs)) eqn:W; [|discriminate].
  intros H; inversion H; subst; clear H. split; [symmetry; apply firstn_skipn|]. split.
  - unfold len in *. rewrite firstn_length. lia.
  - apply bytes_wfb_spec, W.
Qed.

Lemma take_eoi n bs : len bs < n -> take n bs = DEoi.
Proof. intros H. unfold take. destruct (len bs <? n) eqn:E; [reflexivity|lia]. Qed.

(* a result of [take] on an input made of bytes is never DErr *)
Lemma take_bytes_total n bs : bytes_wf bs -> take n bs <> DErr.
Proof.
  intros Hb. unfold take. destruct (len bs <? n); [discriminate|].
  assert (W : bytes_wfb (firstn (Z.to_nat n) bs) = true).
  { apply bytes_wfb_spec. unfold bytes_wf in *. rewrite Forall_forall in *.
    intros x Hx. apply Hb. rewrite <- (firstn_skipn (Z.to_nat n) bs). apply in_or_app. left. exact Hx. }
  rewrite W. discriminate.
Qed.

(* ---- initial byte ---- *)
Lemma major_of_code_code m : major_of_code (major_code m) = m.
Proof. destruct m; reflexivity. Qed.

Lemma major_code_of_code c : 0 <= c < 8 -> major_code (major_of_code c) = c.
Proof.
  intros H. unfold major_of_code.
  repeat match goal with |- context [?a =? ?b] => destruct (a =? b) eqn:?; [cbn; lia|] end.
  cbn. lia.
Qed.

Lemma major_code_range m : 0 <= major_code m < 8.
Proof. destruct m; cbn; lia. Qed.

Lemma major_eqb_spec a b : major_eqb a b = true <-> a = b.
Proof. unfold major_eqb. split; [|intros ->; apply Z.eqb_refl]. destruct a, b; cbn; intros H; try reflexivity; lia. Qed.

Lemma major_eqb_refl a : major_eqb a a = true.
Proof. apply major_eqb_spec. reflexivity. Qed.

Lemma width_eqb_spec a b : width_eqb a b = true <-> a = b.
Proof. destruct a, b; cbn; split; intros H; try reflexivity; try discriminate. Qed.

Lemma initial_byte m i :
  0 <= i < 32 ->
  byteb (major_code m * 32 + i) = true /\
  major_of_code ((major_code m * 32 + i) / 32) = m /\
  (major_code m * 32 + i) mod 32 = i.
Proof.
  intros Hi. pose proof (major_code_range m) as Hm.
  replace ((major_code m * 32 + i) / 32) with (major_code m) by lia.
  rewrite major_of_code_code. unfold byteb. repeat split; lia.
Qed.

Lemma arg_fitsb_spec w n : arg_fitsb w n = true <-> arg_fits w n.
Proof. unfold arg_fitsb, arg_fits. lia. Qed.

(* ---- heads ---- *)
Lemma dec_head_enc m w n r :
  arg_fits w n -> dec_head (enc_head m w n ++ r) = DOk (m, HArg w n, r).
Proof.
  intros Hn. unfold arg_fits in Hn.
  assert (Hw : w = W0 \/ w <> W0) by (destruct w; auto; right; discriminate).
  destruct Hw as [->|Hw].
  - cbn [enc_head app width_bound] in *. unfold dec_head.
    destruct (initial_byte m n ltac:(lia)) as (Hb & Hm & Hi). rewrite Hb, Hm, Hi. cbn [negb].
    destruct (n <? 24) eqn:E; [reflexivity|lia].
  - assert (Henc : enc_head m w n = (major_code m * 32 + width_info w) :: be_bytes (width_nbytes w) n)
      by (destruct w; try reflexivity; congruence).
    rewrite Henc. cbn [app]. unfold dec_head.
    assert (Hinfo : 24 <= width_info w <= 27) by (destruct w; cbn; try lia; congruence).
    destruct (initial_byte m (width_info w) ltac:(lia)) as (Hb & Hm & Hi). rewrite Hb, Hm, Hi. cbn [negb].
    destruct (width_info w <? 24) eqn:E1; [lia|].
    destruct (width_info w =? 31) eqn:E2; [lia|].
    assert (Hwi : width_of_info (width_info w) = Some w) by (destruct w; try reflexivity; congruence).
    rewrite Hwi.
    rewrite take_app_n; [|apply be_bytes_wf| unfold len; rewrite be_bytes_length; reflexivity].
    cbn [dbind]. rewrite be_val_bytes; [reflexivity|].
    rewrite width_bound_pow in Hn. destruct w; try congruence; cbn [width_eqb] in Hn; exact Hn.
Qed.

Lemma dec_head_indef m r : dec_head (enc_indef m ++ r) = DOk (m, HIndef, r).
Proof.
  unfold enc_indef. cbn [app]. unfold dec_head.
  destruct (initial_byte m 31 ltac:(lia)) as (Hb & Hm & Hi). rewrite Hb, Hm, Hi. reflexivity.
Qed.

Lemma width_of_info_some info w :
  24 <= info -> width_of_info info = Some w -> w <> W0 /\ info = width_info w.
Proof.
  intros H. unfold width_of_info.
  destruct (info <? 24) eqn:?; [lia|].
  repeat match goal with |- context [?a =? ?b] => destruct (a =? b) eqn:? end;
  intros E; inversion E; subst; cbn; split; try discriminate; lia.
Qed.

Lemma dec_head_sound bs m h r :
  dec_head bs = DOk (m, h, r) ->
  match h with
  | HArg w n => bs = enc_head m w n ++ r /\ arg_fits w n
  | HIndef => bs = enc_indef m ++ r
  end.
Proof.
  unfold dec_head. destruct bs as [|b t]; [discriminate|].
  destruct (byteb b) eqn:Hb; cbn [negb]; [|discriminate]. apply byteb_spec in Hb. unfold byte in Hb.
  assert (Hc : 0 <= b / 32 < 8) by lia.
  assert (Hb32 : b = major_code (major_of_code (b / 32)) * 32 + b mod 32).
  { rewrite major_code_of_code by exact Hc. lia. }
  destruct (b mod 32 <? 24) eqn:E1.
  { intros H; inversion H; subst; clear H. cbn [enc_head app]. split; [f_equal; exact Hb32|].
    unfold arg_fits; cbn; lia. }
  destruct (b mod 32 =? 31) eqn:E2.
  { intros H; inversion H; subst; clear H. unfold enc_indef. cbn [app]. f_equal.
    rewrite Hb32 at 1. f_equal. lia. }
  destruct (width_of_info (b mod 32)) as [w|] eqn:Hw; [|discriminate].
  apply width_of_info_some in Hw as [Hw0 Hinfo]; [|lia].
  intros H. apply dbind_ok in H as ([a r'] & Ht & H). inversion H; subst; clear H.
  apply take_sound in Ht as (Hbs & Hlen & Hwf); [|lia].
  assert (Hal : length a = width_nbytes w) by (unfold len in Hlen; lia).
  split.
  - assert (Henc : enc_head (major_of_code (b / 32)) w (be_val a)
                   = (major_code (major_of_code (b / 32)) * 32 + width_info w) :: be_bytes (width_nbytes w) (be_val a))
      by (destruct w; try reflexivity; congruence).
    rewrite Henc. cbn [app]. rewrite <- Hinfo, <- Hb32. f_equal.
    rewrite <- Hal, be_bytes_val by exact Hwf. exact Hbs.
  - unfold arg_fits. rewrite width_bound_pow.
    assert (Hne : width_eqb w W0 = false) by (destruct w; try reflexivity; congruence).
    rewrite Hne. pose proof (be_val_range a Hwf) as Hr. unfold len in Hr. rewrite Hal in Hr. exact Hr.
Qed.

Lemma dec_head_sound_arg bs m w n r :
  dec_head bs = DOk (m, HArg w n, r) -> bs = enc_head m w n ++ r /\ arg_fits w n.
Proof. intros H. apply dec_head_sound in H. exact H. Qed.

Lemma dec_head_sound_indef bs m r :
  dec_head bs = DOk (m, HIndef, r) -> bs = enc_indef m ++ r.
Proof. intros H. apply dec_head_sound in H. exact H. Qed.

(* first byte of a head is never the break byte *)
Lemma enc_head_first m w n : arg_fits w n -> exists b t, enc_head m w n = b :: t /\ 0 <= b < 252.
Proof.
  intros Hn. unfold arg_fits in Hn. pose proof (major_code_range m).
  destruct w; cbn [enc_head width_info width_bound] in *; eexists; eexists; (split; [reflexivity|lia]).
Qed.

Lemma enc_head_length m w n : length (enc_head m w n) = S (width_nbytes w).
Proof. destruct w; cbn [enc_head length]; try reflexivity; rewrite be_bytes_length; reflexivity. Qed.

Lemma enc_head_wf m w n : arg_fits w n -> bytes_wf (enc_head m w n).
Proof.
  intros Hn. unfold arg_fits in Hn. pose proof (major_code_range m).
  destruct w; cbn [enc_head width_info width_bound] in *;
  (constructor; [unfold byte; lia| try apply be_bytes_wf; try constructor]).
Qed.

(* minimal heads *)
Lemma min_width_fits n : 0 <= n < 18446744073709551616 -> arg_fits (min_width n) n.
Proof.
  intros H. unfold min_width, arg_fits.
  repeat match goal with |- context [?a <? ?b] => destruct (a <? b) eqn:?; [cbn; lia|] end.
  cbn. lia.
Qed.

Lemma dec_head_enc_min m n r :
  0 <= n < 18446744073709551616 -> dec_head (enc_head_min m n ++ r) = DOk (m, HArg (min_width n) n, r).
Proof. intros H. apply dec_head_enc, min_width_fits, H. Qed.
