//! C30: block traversal — probe::block_era, MultiEraBlock::{decode, era, tx_count, txs}
//! and the transactions txs() assembles, against the fields of the decoded era struct.
//!
//! cases (see coq/theories/C30/Run.v):
//!   CProbe bytes code | CBlock prefix <variant+contents> era count txs | CReject prefix code
//! ids: body = first 8 bytes of blake2b-256(raw body) >> 2 (implementation side: MultiEraTx::hash),
//!      witness set / auxiliary data = FNV digest of the raw CBOR.
use pallas_codec::minicbor;
use pallas_codec::utils::{KeepRaw, Nullable};
use pallas_crypto::hash::Hasher;
use pallas_primitives::alonzo::AuxiliaryData;
use pallas_primitives::{alonzo, babbage, conway};
use pallas_traverse::probe::{block_era, Outcome};
use pallas_traverse::{Era, MultiEraBlock, MultiEraTx};
use std::collections::{BTreeMap, HashMap};
use verif_harness::*;

fn fnv(bytes: &[u8]) -> u64 {
    let mut h: u64 = 0xcbf29ce484222325;
    for b in bytes { h ^= *b as u64; h = h.wrapping_mul(0x100000001b3); }
    h >> 2
}
fn id_of_hash(h: &[u8]) -> u64 { u64::from_be_bytes(h[..8].try_into().unwrap()) >> 2 }
fn body_id(raw: &[u8]) -> u64 { id_of_hash(Hasher::<256>::hash(raw).as_ref()) }

fn era_code(e: Era) -> i64 { match e { Era::Byron => 1, Era::Shelley => 2, Era::Allegra => 3, Era::Mary => 4, Era::Alonzo => 5, Era::Babbage => 6, Era::Conway => 7, _ => 99 } }
fn era_name(e: Era) -> &'static str { match e { Era::Byron => "Byron", Era::Shelley => "Shelley", Era::Allegra => "Allegra", Era::Mary => "Mary", Era::Alonzo => "Alonzo", Era::Babbage => "Babbage", Era::Conway => "Conway", _ => "Byron" } }
fn probe_code(o: &Outcome) -> i64 { match o { Outcome::Matched(e) => era_code(*e), Outcome::EpochBoundary => 0, Outcome::Inconclusive => -1 } }

/// what the decoded era struct holds (read off its fields, not through txs())
#[derive(Clone, Debug, PartialEq)]
struct Shape { bodies: Vec<u64>, wits: Vec<u64>, aux: Vec<(u64, u64)>, invalid: Option<Vec<u64>> }
type Tx4 = (u64, u64, bool, Option<u64>);

macro_rules! shape_of {
    ($b:expr) => {
        Shape {
            bodies: $b.transaction_bodies.iter().map(|x| body_id(x.raw_cbor())).collect(),
            wits: $b.transaction_witness_sets.iter().map(|x| fnv(x.raw_cbor())).collect(),
            aux: $b.auxiliary_data_set.iter().map(|(k, v)| (*k as u64, fnv(v.raw_cbor()))).collect(),
            invalid: $b.invalid_transactions.as_ref().map(|v| v.iter().map(|x| *x as u64).collect()),
        }
    };
}
fn aux_id(a: &Nullable<KeepRaw<AuxiliaryData>>) -> Option<u64> { match a { Nullable::Some(x) => Some(fnv(x.raw_cbor())), _ => None } }

fn observe_tx(tx: &MultiEraTx) -> Tx4 {
    let h = id_of_hash(tx.hash().as_ref());
    match tx {
        MultiEraTx::AlonzoCompatible(x, _) => (h, fnv(x.transaction_witness_set.raw_cbor()), tx.is_valid(), aux_id(&x.auxiliary_data)),
        MultiEraTx::Babbage(x) => (h, fnv(x.transaction_witness_set.raw_cbor()), tx.is_valid(), aux_id(&x.auxiliary_data)),
        MultiEraTx::Conway(x) => (h, fnv(x.transaction_witness_set.raw_cbor()), tx.is_valid(), aux_id(&x.auxiliary_data)),
        MultiEraTx::Byron(x) => (h, fnv(x.witness.raw_cbor()), tx.is_valid(), None),
        _ => (h, 0, tx.is_valid(), None),
    }
}

/// compact names (number literals are expensive to parse in Coq): each distinct digest of a
/// case is printed as its number of first appearance; equality is preserved exactly
#[derive(Default)]
struct Names { seen: std::cell::RefCell<Vec<u64>> }
impl Names {
    fn id(&self, x: &u64) -> String {
        let mut s = self.seen.borrow_mut();
        match s.iter().position(|y| y == x) { Some(p) => p.to_string(), None => { s.push(*x); (s.len() - 1).to_string() } }
    }
}
fn coq_shape(s: &Shape, n: &Names) -> String {
    format!("(mk_sblock {} {} {} {})", coq_list(&s.bodies, |x| n.id(x)), coq_list(&s.wits, |x| n.id(x)),
        coq_list(&s.aux, |(k, v)| format!("({},{})", k, n.id(v))), coq_opt(&s.invalid, |l| coq_list(l, |x| x.to_string())))
}
fn coq_tx4(t: &Tx4, n: &Names) -> String { format!("({},{},{},{})", n.id(&t.0), n.id(&t.1), coq_bool(t.2), coq_opt(&t.3, |x| n.id(x))) }

struct Ctx { oracle_only: bool, per_key: HashMap<String, u64>, evals: u64, stats: HashMap<String, u64> }
impl Ctx {
    fn fail(&mut self, key: &str, text: String) { let c = self.per_key.entry(key.to_string()).or_insert(0); *c += 1; if *c <= 20 { emit_oracle_fail(key, &text); } }
    fn bump(&mut self, k: &str) { *self.stats.entry(k.to_string()).or_insert(0) += 1; }
}

/// what the generator put into a re-assembled block (independent of the decoder)
struct Intent { tag: u8, invalid: Option<Vec<u32>>, aux: BTreeMap<u32, u64>, n: usize }

fn hexcut(b: &[u8]) -> String { if b.len() > 1500 { format!("{}…({} bytes)", hex(&b[..1500]), b.len()) } else { hex(b) } }

/// decode a block, compare everything the property names; emit the case
fn run_block(cx: &mut Ctx, tag: &str, name: &str, bytes: &[u8], intent: Option<&Intent>, to_model: bool) {
    cx.evals += 1;
    let prefix: Vec<u8> = bytes.iter().take(12).cloned().collect();
    let pc = match guard_total(|| probe_code(&block_era(bytes))) { Out::Ok(c) => c, _ => { cx.fail("probe-panic", format!("{}: probe::block_era panicked on {}", name, hexcut(bytes))); return; } };
    let names = Names::default();
    let r = guard_total(|| -> Option<(String, i64, u64, Vec<Tx4>, Option<Shape>, Vec<(u64, u64)>)> {
        let b = MultiEraBlock::decode(bytes).ok()?;
        let txs: Vec<Tx4> = b.txs().iter().map(observe_tx).collect();
        let (m, shape, byron): (String, Option<Shape>, Vec<(u64, u64)>) = match &b {
            MultiEraBlock::EpochBoundary(_) => ("BEpochBoundary".into(), None, vec![]),
            MultiEraBlock::Byron(x) => {
                let p: Vec<(u64, u64)> = x.body.tx_payload.iter().map(|t| (body_id(t.transaction.raw_cbor()), fnv(t.witness.raw_cbor()))).collect();
                (format!("(BByron {})", coq_list(&p, |(a, w)| format!("({},{})", names.id(a), names.id(w)))), None, p)
            }
            MultiEraBlock::AlonzoCompatible(x, e) => { let s = shape_of!(x); (format!("(BAlonzoCompatible {} {})", coq_shape(&s, &names), era_name(*e)), Some(s), vec![]) }
            MultiEraBlock::Babbage(x) => { let s = shape_of!(x); (format!("(BBabbage {})", coq_shape(&s, &names)), Some(s), vec![]) }
            MultiEraBlock::Conway(x) => { let s = shape_of!(x); (format!("(BConway {})", coq_shape(&s, &names)), Some(s), vec![]) }
            _ => return None,
        };
        Some((m, era_code(b.era()), b.tx_count() as u64, txs, shape, byron))
    });
    let replay = format!("{} block={}", name, hexcut(bytes));
    match r {
        Out::Panic(m) => { cx.fail("panic", format!("{} panicked: {}", replay, m)); }
        Out::Err(_) => {}
        Out::Ok(None) => {
            cx.bump("rejected");
            if let Some(it) = intent { if it.tag != 255 && pc >= 0 { cx.bump("rejected-after-probe"); } }
            if to_model && !cx.oracle_only { emit_case(&format!("{}-rejected", tag), &format!("(CReject {} {})", coq_bytes(&prefix), coq_z(pc))); }
        }
        Out::Ok(Some((m, era, count, txs, shape, byron))) => {
            // --- oracle: the property, from the raw parts ---
            // era is the one the wrapper declares
            let declared: Option<u8> = match intent { Some(it) => Some(it.tag), None => if bytes.len() > 1 && bytes[0] == 0x82 && bytes[1] < 24 { Some(bytes[1]) } else { None } };
            if let Some(t) = declared {
                let exp = match t { 0 | 1 => 1, 2..=7 => t as i64, _ => -5 };
                if era != exp { cx.fail("era", format!("{}: era() code {} but the wrapper tag is {}", replay, era, t)); }
            }
            if count != txs.len() as u64 {
                let key = if shape.as_ref().map(|s| s.wits.len() != s.bodies.len()).unwrap_or(false) { "count-with-unequal-lists" } else { "tx-count" };
                cx.fail(key, format!("{}: tx_count()={} but txs() has {}", replay, count, txs.len()));
            }
            if let Some(s) = &shape {
                if count != s.bodies.len() as u64 { cx.fail("tx-count", format!("{}: tx_count()={} but {} bodies", replay, count, s.bodies.len())); }
                if s.wits.len() == s.bodies.len() {
                    for (i, t) in txs.iter().enumerate() {
                        let inv = s.invalid.as_ref().map(|l| l.contains(&(i as u64))).unwrap_or(false);
                        let au = s.aux.iter().find(|(k, _)| *k == i as u64).map(|(_, v)| *v);
                        if t.0 != s.bodies[i] { cx.fail("tx-body", format!("{}: tx {} does not carry body {}", replay, i, i)); }
                        if t.1 != s.wits[i] { cx.fail("tx-witness", format!("{}: tx {} does not carry witness set {}", replay, i, i)); }
                        if t.2 == inv { cx.fail("tx-validity", format!("{}: tx {} is_valid={} but invalid list {:?}", replay, i, t.2, s.invalid)); }
                        if t.3 != au { cx.fail("tx-aux", format!("{}: tx {} aux {:?} but the map holds {:?} at {}", replay, i, t.3, au, i)); }
                    }
                }
                // against what the generator put in
                if let Some(it) = intent {
                    if s.bodies.len() != it.n { cx.fail("reassembly", format!("{}: {} bodies expected {}", replay, s.bodies.len(), it.n)); }
                    for (i, t) in txs.iter().enumerate() {
                        let inv = it.invalid.as_ref().map(|l| l.contains(&(i as u32))).unwrap_or(false);
                        if t.2 == inv { cx.fail("tx-validity", format!("{}: tx {} is_valid={} but the block was built with invalid list {:?}", replay, i, t.2, it.invalid)); }
                        if t.3 != it.aux.get(&(i as u32)).copied() { cx.fail("tx-aux", format!("{}: tx {} aux {:?} but the block was built with {:?}", replay, i, t.3, it.aux.get(&(i as u32)))); }
                    }
                }
            } else {
                for (i, t) in txs.iter().enumerate() {
                    if byron.get(i).map(|p| (p.0, p.1)) != Some((t.0, t.1)) || !t.2 || t.3.is_some() { cx.fail("byron-tx", format!("{}: byron tx {} differs from payload entry {}", replay, i, i)); }
                }
                if count != byron.len() as u64 { cx.fail("tx-count", format!("{}: tx_count()={} but {} payload entries", replay, count, byron.len())); }
            }
            cx.bump(&format!("decoded-era-{}", era));
            if txs.iter().any(|t| !t.2) { cx.bump("blocks-with-invalid-tx"); }
            if txs.iter().any(|t| t.3.is_some()) && txs.iter().any(|t| t.3.is_none()) { cx.bump("blocks-with-sparse-aux"); }
            if to_model && !cx.oracle_only {
                emit_case(tag, &format!("(CBlock {} {} {} {} {})", coq_bytes(&prefix), m, coq_z(era), count, coq_list(&txs, |t| coq_tx4(t, &names))));
            }
        }
    }
}

fn repo_root() -> String {
    let manifest = std::path::Path::new(env!("CARGO_MANIFEST_DIR")).join("Cargo.toml");
    if let Ok(t) = std::fs::read_to_string(manifest) {
        for line in t.lines() {
            if line.starts_with("pallas-traverse") {
                if let Some(i) = line.find("path = \"") { let rest = &line[i + 8..]; if let Some(j) = rest.find("/pallas-traverse\"") { return rest[..j].to_string(); } }
            }
        }
    }
    "/repo".into()
}

/// all blocks under test_data: hex .block files and the concatenated CBOR items of the immutable-DB chunks
fn corpus() -> Vec<(String, Vec<u8>)> {
    let td = format!("{}/test_data", repo_root());
    let mut files: Vec<_> = std::fs::read_dir(&td).map(|rd| rd.filter_map(|e| e.ok()).map(|e| e.path()).collect()).unwrap_or_default();
    files.sort();
    let mut out = vec![];
    for p in files {
        let ext = p.extension().and_then(|x| x.to_str()).unwrap_or("").to_string();
        let name = p.file_name().unwrap().to_string_lossy().to_string();
        if ext == "block" {
            if let Ok(txt) = std::fs::read_to_string(&p) { if let Ok(b) = hex::decode(txt.trim()) { out.push((name, b)); } }
        } else if ext == "chunk" {
            if let Ok(data) = std::fs::read(&p) {
                let items = guard_total(|| { let mut v = vec![]; let mut d = minicbor::Decoder::new(&data); while d.position() < data.len() { let s = d.position(); if d.skip().is_err() { break; } v.push((s, d.position())); } v });
                if let Out::Ok(items) = items { for (k, (s, e)) in items.iter().enumerate() { out.push((format!("{}#{}", name, k), data[*s..*e].to_vec())); } }
            }
        }
    }
    out
}

fn wrapper(rng: &mut Rng, tag: u8, payload: &[u8]) -> (Vec<u8>, bool) {
    // (bytes, canonical?)  canonical = 0x82 tag
    let mut v = vec![];
    let mode = rng.below(12);
    let canonical = mode >= 4;
    match mode {
        0 => { v.extend_from_slice(&[0x82, 0x18, tag]); }                 // one-byte argument: still a U8 token
        1 => { v.extend_from_slice(&[0x82, 0x19, 0x00, tag]); }           // two-byte argument: U16 token
        2 => { v.extend_from_slice(&[0x98, 0x02, tag]); }                 // non-minimal array head
        3 => { v.extend_from_slice(&[0x9f, tag]); }                       // indefinite wrapper
        _ => { v.extend_from_slice(&[0x82, tag]); }
    }
    v.extend_from_slice(payload);
    if mode == 3 { v.push(0xff); }
    (v, canonical)
}

macro_rules! reassemble {
    ($rng:expr, $blk:expr, $pool:expr, $tagchoices:expr) => {{
        let mut b = $blk.clone();
        let n = b.transaction_bodies.len();
        let pick_idx = |rng: &mut Rng| -> u32 { match rng.below(8) { 0 => n as u32, 1 => (n as u32).wrapping_add(1 + rng.below(5) as u32), 2 => u32::MAX - rng.below(2) as u32, _ => rng.below(n.max(1) as u64) as u32 } };
        let invalid: Option<Vec<u32>> = match $rng.below(5) {
            0 => None,
            1 => Some(vec![]),
            _ => { let k = $rng.below((n as u64).min(6) + 2); let mut v: Vec<u32> = (0..k).map(|_| pick_idx($rng)).collect(); if $rng.bool() { v.sort(); } if $rng.chance(1, 4) && !v.is_empty() { let d = v[0]; v.push(d); } Some(v) }
        };
        let mut aux: BTreeMap<u32, KeepRaw<AuxiliaryData>> = BTreeMap::new();
        let mut aux_ids: BTreeMap<u32, u64> = BTreeMap::new();
        if !$pool.is_empty() && !$rng.chance(1, 6) {
            let k = $rng.below((n as u64).min(8) + 2);
            for _ in 0..k { let i = pick_idx($rng); let a = $rng.pick($pool).clone(); aux_ids.insert(i, fnv(a.raw_cbor())); aux.insert(i, a); }
        }
        b.invalid_transactions = invalid.clone();
        b.auxiliary_data_set = aux;
        let tag: u8 = *$rng.pick($tagchoices);
        let payload = minicbor::to_vec(&b).unwrap();
        (tag, payload, Intent { tag, invalid, aux: aux_ids, n })
    }};
}

fn main() {
    let args = args();
    let mut rng = Rng::new(args.seed);
    let thorough = args.tier == "thorough";
    let mut cx = Ctx { oracle_only: args.oracle_only, per_key: HashMap::new(), evals: 0, stats: HashMap::new() };
    let corpus = corpus();
    emit_stat("corpus_blocks", corpus.len() as u64);
    if corpus.is_empty() { eprintln!("no blocks found under test_data"); std::process::exit(3); }

    // 1. every corpus block; in the quick tier the model sees the .block files and a slice of the chunk blocks
    for (k, (name, bytes)) in corpus.iter().enumerate() {
        let to_model = thorough || !name.contains(".chunk#") || (k as u64 + args.seed) % 9 == 0;
        run_block(&mut cx, if name.contains(".chunk#") { "corpus-chunk" } else { "corpus-block" }, name, bytes, None, to_model);
    }

    // 2. the probe alone on byte strings: wrappers of every width / tag, truncations, junk
    let mut probes: Vec<Vec<u8>> = vec![vec![], vec![0x82], vec![0x82, 0x18], vec![0x98], vec![0x9f, 0x01], vec![0x82, 0x19, 0x00, 0x05], vec![0x82, 0x18, 0x05], vec![0x98, 0x02, 0x06],
        vec![0x99, 0x00, 0x02, 0x07], vec![0x9a, 0, 0, 0, 2, 1], vec![0x9b, 0, 0, 0, 0, 0, 0, 0, 2, 2], vec![0x9b, 0, 0, 0, 0, 0, 0, 0, 2], vec![0x83, 0x01], vec![0x81, 0x01], vec![0x82, 0x20], vec![0x82, 0x41, 0x01], vec![0xa2, 0x01], vec![0x82, 0xf6], vec![0x82, 0x18, 0xff], vec![0x9c, 0x02, 0x01], vec![0x82, 0x1c]];
    for t in 0u8..=30 { probes.push(vec![0x82, t, 0x80]); probes.push(vec![0x82, 0x18, t]); }
    for _ in 0..(args.n / 2).max(100) {
        let mut v = match rng.below(4) { 0 => { let k = rng.below(6) as usize; rng.bytes(k) } 1 => { let mut p = rng.pick(&probes).clone(); if !p.is_empty() { let i = rng.below(p.len() as u64) as usize; p[i] ^= 1 << rng.below(8); } p } 2 => vec![0x80 + rng.below(0x20) as u8, rng.byte(), rng.byte(), rng.byte()], _ => { let k = rng.below(6) as usize; let (_, b) = rng.pick(&corpus); b.iter().take(k).cloned().collect() } };
        if rng.chance(1, 3) { let k = rng.below(5) as usize; v.extend(rng.bytes(k)); }
        probes.push(v);
    }
    for p in &probes {
        cx.evals += 1;
        match guard_total(|| probe_code(&block_era(p))) {
            Out::Ok(c) => {
                // oracle: a canonical wrapper [0x82, tag<=7] must be recognised as that tag, and nothing beyond 7 matched
                if p.len() >= 2 && p[0] == 0x82 && p[1] <= 7 && c != p[1] as i64 { cx.fail("probe-tag", format!("probe on {} gives {} expected {}", hex(p), c, p[1])); }
                if p.len() >= 2 && p[0] == 0x82 && p[1] > 7 && p[1] < 24 && c != -1 { cx.fail("probe-tag", format!("probe on {} gives {} for an unknown tag", hex(p), c)); }
                if !cx.oracle_only { emit_case("probe", &format!("(CProbe {} {})", coq_bytes(p), coq_z(c))); }
            }
            _ => cx.fail("probe-panic", format!("probe::block_era panicked on {}", hex(p))),
        }
    }

    // 3. generated blocks: real blocks re-assembled with random invalid lists and sparse aux maps
    let decoded: Vec<(usize, MultiEraBlock)> = corpus.iter().enumerate().filter(|(_, (_, b))| b.len() < 40_000).filter_map(|(k, (_, b))| MultiEraBlock::decode(b).ok().map(|m| (k, m))).collect();
    let mut pool: Vec<KeepRaw<AuxiliaryData>> = vec![];
    for (_, m) in &decoded {
        let it: Vec<&KeepRaw<AuxiliaryData>> = match m { MultiEraBlock::AlonzoCompatible(x, _) => x.auxiliary_data_set.values().collect(), MultiEraBlock::Babbage(x) => x.auxiliary_data_set.values().collect(), MultiEraBlock::Conway(x) => x.auxiliary_data_set.values().collect(), _ => vec![] };
        for a in it { if pool.len() < 60 && a.raw_cbor().len() < 2000 { pool.push(a.clone()); } }
    }
    emit_stat("aux_pool", pool.len() as u64);
    let shelley_like: Vec<&(usize, MultiEraBlock)> = decoded.iter().filter(|(_, m)| matches!(m, MultiEraBlock::AlonzoCompatible(..) | MultiEraBlock::Babbage(_) | MultiEraBlock::Conway(_))).collect();
    let byron_like: Vec<&(usize, MultiEraBlock)> = decoded.iter().filter(|(_, m)| matches!(m, MultiEraBlock::Byron(_) | MultiEraBlock::EpochBoundary(_))).collect();
    let mut made = 0usize;
    while made < args.n && !shelley_like.is_empty() {
        // spread over the three struct families
        let want = rng.below(3);
        let cands: Vec<&&(usize, MultiEraBlock)> = shelley_like.iter().filter(|(_, m)| match (want, m) { (0, MultiEraBlock::AlonzoCompatible(..)) => true, (1, MultiEraBlock::Babbage(_)) => true, (2, MultiEraBlock::Conway(_)) => true, _ => false }).collect();
        if cands.is_empty() { made += 1; continue; }
        let (k, m) = **rng.pick(&cands);
        let name = &corpus[*k].0;
        let built = guard_total(|| match m {
            MultiEraBlock::AlonzoCompatible(x, _) => { let (t, p, i) = reassemble!(&mut rng, (**x), &pool, &[2u8, 3, 4, 5, 5, 2, 6, 1]); Some((t, p, i, "generated-alonzo-compatible")) }
            MultiEraBlock::Babbage(x) => { let (t, p, i) = reassemble!(&mut rng, (**x), &pool, &[6u8, 6, 6, 6, 7, 5, 8]); Some((t, p, i, "generated-babbage")) }
            MultiEraBlock::Conway(x) => { let (t, p, i) = reassemble!(&mut rng, (**x), &pool, &[7u8, 7, 7, 7, 6, 0, 23]); Some((t, p, i, "generated-conway")) }
            _ => None,
        });
        made += 1;
        let Out::Ok(Some((tag, payload, mut intent, gtag))) = built else { cx.bump("generator-failed"); continue };
        let (bytes, canonical) = wrapper(&mut rng, tag, &payload);
        if !canonical { intent.tag = tag; }
        if made <= 3 { emit_sample(&format!("{} from {}: tag {} invalid {:?} aux keys {:?}", gtag, name, tag, intent.invalid, intent.aux.keys().collect::<Vec<_>>())); }
        run_block(&mut cx, gtag, &format!("generated from {}", name), &bytes, Some(&intent), true);
    }
    // Byron-family blocks under other wrapper tags / widths
    for _ in 0..(args.n / 10).max(10) {
        if byron_like.is_empty() { break; }
        let (k, _) = **rng.pick(&byron_like);
        let (name, bytes) = &corpus[k];
        if bytes.len() < 3 || bytes[0] != 0x82 { continue; }
        let tag = *rng.pick(&[0u8, 1, 1, 2, 7, 8]);
        let (b2, _) = wrapper(&mut rng, tag, &bytes[2..]);
        let intent = Intent { tag, invalid: None, aux: BTreeMap::new(), n: 0 };
        // intent.n is not meaningful for Byron: only the era / rejection is checked through `declared`
        run_block(&mut cx, "byron-rewrapped", &format!("rewrapped {}", name), &b2, Some(&intent), true);
    }
    emit_stat("block_evaluations_oracle", if cx.oracle_only { cx.evals } else { 0 });
    let st: Vec<(String, u64)> = cx.stats.iter().map(|(k, v)| (k.clone(), *v)).collect();
    for (k, v) in st { emit_stat(&k, v); }
    let ks: Vec<(String, u64)> = cx.per_key.iter().map(|(k, v)| (k.clone(), *v)).collect();
    for (k, v) in ks { emit_stat(&format!("oracle_fail[{}]", k), v); }
}
