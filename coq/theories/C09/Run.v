(* C09 correspondence: outcome classes (0 Ok, 1 Err, 2 Panic) of the modelled entry points. *)
From PV Require Import Lib.Base Cbor.Item Cbor.Dec Cbor.Api C09.Model.
From PV Require C18.Model.
Open Scope Z_scope.

Inductive case : Type :=
| CAddr (bs : list Z) (cls : Z)
| CVarUint (bs : list Z) (cls val used : Z)
| CPointer (bs : list Z) (cls : Z)
| CProbe (bs : list Z) (out : Z)
| CBlock (bs : list Z) (probe era_cls cls : Z)
| CTx (c0 c1 c2 c3 cls era : Z)
| CMsg (stack proto : Z) (bs : list Z) (cls label : Z)
| CChan (stack proto : Z) (bs : list Z) (cls rest : Z)
| CVariant (kind : Z) (bs : list Z) (cls : Z).

Definition cls_of {A} (o : outcome A) : Z := match o with Ok _ => 0 | Err _ => 1 | Panic _ => 2 end.
Definition of_cls (c : Z) : outcome unit := if c =? 0 then Ok tt else if c =? 1 then Err 1 else Panic 9.
(* localstate/queries_v16 label dispatchers: DRep, CommitteeAuthorization, FuturePParams,
   GovAction, HotCredAuthStatus, NextEpochChange *)
Definition variant_labels (kind : Z) : list Z :=
  if kind =? 0 then [0; 1; 2; 3] else if kind =? 1 then [0; 1] else if kind =? 2 then [0; 1; 2]
  else if kind =? 3 then [0; 1; 2; 3; 4; 5; 6] else if kind =? 4 then [0; 1; 2] else [0; 1; 2; 3; 4].
Definition no_payload (_ _ _ : Z) (r : list Z) : dres (list Z) := DOk r.

(* model output, printed on mismatch *)
Definition case_out (c : case) : list Z :=
  match c with
  | CAddr bs _ => [cls_of (address_from_bytes bs)]
  | CVarUint bs _ _ _ =>
    match varuint_read bs with Ok (v, r) => [0; v; len bs - len r] | Err _ => [1] | Panic _ => [2] end
  | CPointer bs _ => [cls_of (pointer_parse bs)]
  | CProbe bs _ => [probe_code (block_era bs)]
  | CBlock bs _ ec _ => [probe_code (block_era bs); cls_of (block_decode (fun _ _ => of_cls ec) bs)]
  | CTx c0 c1 c2 c3 _ _ =>
    match tx_decode (fun k _ => of_cls (nth (Z.to_nat k) [c0; c1; c2; c3] 1)) [] with
    | Ok k => [0; k] | Err _ => [1] | Panic _ => [2]
    end
  | CMsg s p bs _ _ | CChan s p bs _ _ =>
    match msg_head bs with DOk (l, r) => [0; l; len r; if mem l (labels s p) then 1 else 0] | DEoi => [1] | DErr => [2] end
  | CVariant k bs _ =>
    match variant_dispatch (variant_labels k) false bs with Ok l => [0; l] | Err _ => [1] | Panic _ => [2] end
  end.

Definition era_of_pos (k : Z) : Z := if k =? 0 then 6 else if k =? 1 then 5 else if k =? 2 then 4 else 0.

Definition case_ok (c : case) : bool :=
  match c with
  | CAddr bs cls => cls_of (address_from_bytes bs) =? cls
  | CVarUint bs cls val used =>
    match varuint_read bs with
    | Ok (v, r) => (cls =? 0) && (v =? val) && (len bs - len r =? used)
    | Err _ => cls =? 1
    | Panic _ => false
    end
  | CPointer bs cls => cls_of (pointer_parse bs) =? cls
  | CProbe bs out => probe_code (block_era bs) =? out
  | CBlock bs pr ec cls =>
    (probe_code (block_era bs) =? pr) && (cls_of (block_decode (fun _ _ => of_cls ec) bs) =? cls)
  | CTx c0 c1 c2 c3 cls era =>
    match tx_decode (fun k _ => of_cls (nth (Z.to_nat k) [c0; c1; c2; c3] 1)) [] with
    | Ok k => (cls =? 0) && (era_of_pos k =? era)
    | Err _ => cls =? 1
    | Panic _ => cls =? 2
    end
  | CMsg s p bs cls label =>
    if cls =? 0 then
      match msg_head bs with
      | DOk (l, _) => mem l (labels s p) && ((label =? -1) || (l =? label))
      | _ => false
      end
    else cls =? 1
  | CChan s p bs cls rest =>
    if cls =? 0 then
      match msg_head bs with
      | DOk (l, r) => mem l (labels s p) && (0 <=? rest) && (rest <=? len r)
      | _ => false
      end
    else cls =? 1
  | CVariant k bs cls =>
    (* a known label may still fail in its payload; an unknown one (or no head) must be an error *)
    match variant_dispatch (variant_labels k) false bs with
    | Ok _ => (cls =? 0) || (cls =? 1)
    | Err _ => cls =? 1
    | Panic _ => false
    end
  end.
