//! C40: staging operations then build_conway_raw; decoded transaction vs the staged content.
//! case := (list sop, outcome atx)   (see coq/theories/C40/Run.v)
//!
//! A case is the comma-separated op-token list printed in SAMPLE / ORACLE_FAIL lines (also the
//! corpus format, one list per line in corpus/C40/*.ops). The oracle compares the built transaction with
//! what the operations staged (followed independently of the builder). All values come from fixed pools:
//!   in/rin/ref/rref/col/rcol:H:I   inputs (tx-hash pool H, index I)     out:/cout:<spec> rout:IDX ccout
//!   <spec> = A.L.<P-N-amt+..|_>.<_|hH|iD>.<_|S>   address, lovelace, add_asset calls, datum, script
//!   fee:N cfee mint:P:N:amt rmint:P:N vf:N cvf if:N cif net:N cnet sg:K rsg:K scr:S rscr:S
//!   dat:D rdat:D rdath:D / rdatt:D (remove_datum_by_hash with the datum hash) lv lang:K
//!   srd:H:I:D:<_|mem-steps> rsrd:H:I mrd:P:D:<ex> rmrd:P aux:X caux nop:K
#[path = "txb_common/mod.rs"]
mod txb_common;

use pallas_crypto::hash::{Hash, Hasher};
use pallas_primitives::conway::{self, DatumOption, NativeScript, PlutusData, Redeemers, ScriptRef, TransactionOutput, Value};
use pallas_primitives::Fragment;
use pallas_txbuilder::{BuildConway, ExUnits, Input, Output, ScriptKind, StagingTransaction};
use std::collections::{BTreeMap, BTreeSet};
use txb_common::*;
use verif_harness::*;

// ---------------------------------------------------------------- pools
fn hash32(i: usize) -> [u8; 32] {
    let mut h = [0u8; 32];
    match i % 6 {
        0 => h[31] = 1,
        1 => h[31] = 2,
        2 => h[0] = 1,
        3 => h = [0xff; 32],
        4 => { h[30] = 1; }
        _ => { h[0] = 1; h[31] = 1; }
    }
    h
}
fn pol(i: usize) -> [u8; 28] {
    let mut h = [0u8; 28];
    match i % 4 { 0 => h[27] = 1, 1 => h[27] = 2, 2 => h = [0xab; 28], _ => h[0] = 0x80 }
    h
}
fn keyhash(i: usize) -> [u8; 28] { let mut h = [0x11u8; 28]; h[0] = i as u8; h }
const NAMES: [&[u8]; 7] = [b"", b"a", b"b", b"ab", b"a\0", b"xxxxxxxxxxxxxxxxxxxxxxxxxxxxxxxx", b"yyyyyyyyyyyyyyyyyyyyyyyyyyyyyyyyy"];
/// plutus data: 0..=4 decode (and re-encode to the same bytes), 5.. do not
fn pd(i: usize) -> Vec<u8> {
    match i % 8 {
        0 => vec![0x00], 1 => vec![0x18, 0x2a], 2 => vec![0x9f, 0x01, 0x02, 0xff], 3 => vec![0xd8, 0x79, 0x80],
        4 => vec![0x41, 0x00], 5 => vec![0xff], 6 => vec![0x1c], _ => vec![],
    }
}
/// scripts: 0..=2 native (decode), 3..=4 native (do not decode), 5.. plutus
fn script(i: usize) -> (ScriptKind, Vec<u8>) {
    match i % 9 {
        0 => { let mut v = vec![0x82, 0x00, 0x58, 0x1c]; v.extend_from_slice(&keyhash(1)); (ScriptKind::Native, v) }
        1 => (ScriptKind::Native, vec![0x82, 0x01, 0x80]),
        2 => (ScriptKind::Native, vec![0x82, 0x04, 0x0a]),
        3 => (ScriptKind::Native, vec![0x00]),
        4 => (ScriptKind::Native, vec![0x82, 0x09, 0x00]),
        5 => (ScriptKind::PlutusV1, vec![0x4e, 0x4d, 0x01, 0x00, 0x00, 0x33, 0x22, 0x22, 0x20, 0x05, 0x12, 0x00, 0x12, 0x00, 0x11]),
        6 => (ScriptKind::PlutusV2, vec![0x01]),
        7 => (ScriptKind::PlutusV3, vec![0x02, 0x03]),
        _ => (ScriptKind::PlutusV2, vec![0x82, 0x01, 0x80]), // same bytes as native #1, other language
    }
}
fn kind_z(k: ScriptKind) -> u8 { match k { ScriptKind::Native => 0, ScriptKind::PlutusV1 => 1, ScriptKind::PlutusV2 => 2, ScriptKind::PlutusV3 => 3 } }
fn kind_of(i: usize) -> ScriptKind { [ScriptKind::Native, ScriptKind::PlutusV1, ScriptKind::PlutusV2, ScriptKind::PlutusV3][i % 4] }
/// auxiliary data: 0..=3 decode, 4.. do not
fn aux(i: usize) -> Vec<u8> {
    match i % 6 {
        0 => vec![0xa1, 0x00, 0x01], 1 => vec![0xa1, 0x00, 0xa1, 0x01, 0x02], 2 => vec![0x82, 0xa1, 0x00, 0x01, 0x80],
        3 => vec![0xd9, 0x01, 0x03, 0xa0], 4 => vec![0xff], _ => vec![0x00],
    }
}
fn addr(i: usize) -> pallas_addresses::Address { enterprise_addr((i % 2) as u8, &keyhash(7 + i % 3)) }

// ---------------------------------------------------------------- ops
#[derive(Clone, Debug, PartialEq)]
enum Dat { H(usize), I(usize) }
#[derive(Clone, Debug, PartialEq)]
struct OutSpec { addr: usize, lovelace: u64, assets: Vec<(usize, usize, u64)>, datum: Option<Dat>, script: Option<usize> }
#[derive(Clone, Debug, PartialEq)]
enum Op {
    In(usize, u64), RIn(usize, u64), Ref(usize, u64), RRef(usize, u64), Col(usize, u64), RCol(usize, u64),
    Out(OutSpec), ROut(usize), COut(OutSpec), CCOut,
    Fee(u64), CFee, Mint(usize, usize, i64), RMint(usize, usize), Vf(u64), CVf, If(u64), CIf, Net(u8), CNet,
    Sg(usize), RSg(usize), Scr(usize), RScr(usize), DatO(usize), RDat(usize), RDatH(usize), RDatT(usize),
    Lv, Lang(usize), SRd(usize, u64, usize, Option<(u64, u64)>), RSRd(usize, u64), MRd(usize, usize, Option<(u64, u64)>), RMRd(usize),
    Aux(usize), CAux, Nop(usize),
}

fn ex_tok(e: &Option<(u64, u64)>) -> String { match e { None => "_".into(), Some((m, s)) => format!("{}-{}", m, s) } }
fn ex_parse(t: &str) -> Option<Option<(u64, u64)>> {
    if t == "_" { return Some(None); }
    let (m, s) = t.split_once('-')?;
    Some(Some((m.parse().ok()?, s.parse().ok()?)))
}
impl OutSpec {
    fn tok(&self) -> String {
        let a = if self.assets.is_empty() { "_".to_string() } else { self.assets.iter().map(|(p, n, v)| format!("{}-{}-{}", p, n, v)).collect::<Vec<_>>().join("+") };
        let d = match &self.datum { None => "_".into(), Some(Dat::H(h)) => format!("h{}", h), Some(Dat::I(i)) => format!("i{}", i) };
        let s = match &self.script { None => "_".into(), Some(s) => s.to_string() };
        format!("{}.{}.{}.{}.{}", self.addr, self.lovelace, a, d, s)
    }
    fn parse(t: &str) -> Option<OutSpec> {
        let f: Vec<&str> = t.split('.').collect();
        if f.len() != 5 { return None; }
        let mut assets = vec![];
        if f[2] != "_" { for a in f[2].split('+') { let g: Vec<&str> = a.split('-').collect(); if g.len() != 3 { return None; } assets.push((g[0].parse().ok()?, g[1].parse().ok()?, g[2].parse().ok()?)); } }
        let datum = if f[3] == "_" { None } else if let Some(h) = f[3].strip_prefix('h') { Some(Dat::H(h.parse().ok()?)) } else { Some(Dat::I(f[3].strip_prefix('i')?.parse().ok()?)) };
        let script = if f[4] == "_" { None } else { Some(f[4].parse().ok()?) };
        Some(OutSpec { addr: f[0].parse().ok()?, lovelace: f[1].parse().ok()?, assets, datum, script })
    }
    fn real(&self) -> Output {
        let mut o = Output::new(addr(self.addr), self.lovelace);
        for (p, n, v) in &self.assets { o = o.add_asset(Hash::<28>::from(pol(*p)), NAMES[*n % 6].to_vec(), *v).expect("asset name"); }
        match &self.datum { None => {} Some(Dat::H(h)) => o = o.set_datum_hash(Hash::<32>::from(hash32(*h))), Some(Dat::I(i)) => o = o.set_inline_datum(pd(*i)) }
        if let Some(s) = self.script { let (k, b) = script(s); o = o.set_inline_script(k, b); }
        o
    }
    fn coq(&self, t: &mut Terms) -> String {
        let calls: Vec<String> = self.assets.iter().map(|(p, n, v)| format!("({},{},{})", t.h(&pol(*p)), coq_bytes(NAMES[*n % 6]), v)).collect();
        let d = match &self.datum {
            None => "None".to_string(),
            Some(Dat::H(h)) => format!("(Some (mkDatum false {} true))", t.b(&hash32(*h))),
            Some(Dat::I(i)) => format!("(Some (mkDatum true {} {}))", t.b(&pd(*i)), coq_bool(PlutusData::decode_fragment(&pd(*i)).is_ok())),
        };
        let s = match self.script { None => "None".to_string(), Some(s) => format!("(Some {})", script_coq(s, t)) };
        format!("(mk_out {} {} {} {} {})", t.b(&addr(self.addr).to_vec()), self.lovelace, coq_list(&calls, |x| x.clone()), d, s)
    }
}
fn script_coq(s: usize, t: &mut Terms) -> String {
    let (k, b) = script(s);
    let ok = k != ScriptKind::Native || NativeScript::decode_fragment(&b).is_ok();
    format!("(mkScript {} {} {})", kind_z(k), t.b(&b), coq_bool(ok))
}
fn script_key(s: usize) -> [u8; 28] { let (k, b) = script(s); *Hasher::<224>::hash_tagged(&b, kind_z(k)) }
fn datum_key(d: usize) -> [u8; 32] { *Hasher::<256>::hash(&pd(d)) }
fn rdmr_coq(d: usize, ex: &Option<(u64, u64)>, t: &mut Terms) -> String {
    format!("(mkRdmr {} {} {})", t.b(&pd(d)), coq_bool(PlutusData::decode_fragment(&pd(d)).is_ok()),
        match ex { None => "None".to_string(), Some((m, s)) => format!("(Some ({},{}))", m, s) })
}

/// hashes: real values, `let`-bound once; blobs: (length, index in the per-case table)
struct Terms { hz: Intern, bt: Intern }
impl Terms {
    fn new() -> Self { Terms { hz: Intern::new(true), bt: Intern::new(false) } }
    fn h(&mut self, b: &[u8]) -> String { self.hz.z(b) }
    fn b(&mut self, b: &[u8]) -> String { self.bt.bytes_z(b) }
    fn input(&mut self, h: &[u8], ix: u64) -> String { format!("({},{})", self.h(h), ix) }
}

impl Op {
    fn tok(&self) -> String {
        use Op::*;
        match self {
            In(h, i) => format!("in:{}:{}", h, i), RIn(h, i) => format!("rin:{}:{}", h, i), Ref(h, i) => format!("ref:{}:{}", h, i),
            RRef(h, i) => format!("rref:{}:{}", h, i), Col(h, i) => format!("col:{}:{}", h, i), RCol(h, i) => format!("rcol:{}:{}", h, i),
            Out(o) => format!("out:{}", o.tok()), ROut(i) => format!("rout:{}", i), COut(o) => format!("cout:{}", o.tok()), CCOut => "ccout".into(),
            Fee(n) => format!("fee:{}", n), CFee => "cfee".into(), Mint(p, n, a) => format!("mint:{}:{}:{}", p, n, a), RMint(p, n) => format!("rmint:{}:{}", p, n),
            Vf(n) => format!("vf:{}", n), CVf => "cvf".into(), If(n) => format!("if:{}", n), CIf => "cif".into(), Net(n) => format!("net:{}", n), CNet => "cnet".into(),
            Sg(k) => format!("sg:{}", k), RSg(k) => format!("rsg:{}", k), Scr(s) => format!("scr:{}", s), RScr(s) => format!("rscr:{}", s),
            DatO(d) => format!("dat:{}", d), RDat(d) => format!("rdat:{}", d), RDatH(d) => format!("rdath:{}", d), RDatT(d) => format!("rdatt:{}", d),
            Lv => "lv".into(), Lang(k) => format!("lang:{}", k),
            SRd(h, i, d, e) => format!("srd:{}:{}:{}:{}", h, i, d, ex_tok(e)), RSRd(h, i) => format!("rsrd:{}:{}", h, i),
            MRd(p, d, e) => format!("mrd:{}:{}:{}", p, d, ex_tok(e)), RMRd(p) => format!("rmrd:{}", p),
            Aux(x) => format!("aux:{}", x), CAux => "caux".into(), Nop(k) => format!("nop:{}", k),
        }
    }
    fn parse(t: &str) -> Option<Op> {
        use Op::*;
        let (head, rest) = t.split_once(':').unwrap_or((t, ""));
        let f: Vec<&str> = if rest.is_empty() { vec![] } else { rest.split(':').collect() };
        let u = |i: usize| -> Option<usize> { f.get(i)?.parse().ok() };
        let w = |i: usize| -> Option<u64> { f.get(i)?.parse().ok() };
        Some(match head {
            "in" => In(u(0)?, w(1)?), "rin" => RIn(u(0)?, w(1)?), "ref" => Ref(u(0)?, w(1)?), "rref" => RRef(u(0)?, w(1)?),
            "col" => Col(u(0)?, w(1)?), "rcol" => RCol(u(0)?, w(1)?),
            "out" => Out(OutSpec::parse(rest)?), "rout" => ROut(u(0)?), "cout" => COut(OutSpec::parse(rest)?), "ccout" => CCOut,
            "fee" => Fee(w(0)?), "cfee" => CFee, "mint" => Mint(u(0)?, u(1)?, f.get(2)?.parse().ok()?), "rmint" => RMint(u(0)?, u(1)?),
            "vf" => Vf(w(0)?), "cvf" => CVf, "if" => If(w(0)?), "cif" => CIf, "net" => Net(f.first()?.parse().ok()?), "cnet" => CNet,
            "sg" => Sg(u(0)?), "rsg" => RSg(u(0)?), "scr" => Scr(u(0)?), "rscr" => RScr(u(0)?),
            "dat" => DatO(u(0)?), "rdat" => RDat(u(0)?), "rdath" => RDatH(u(0)?), "rdatt" => RDatT(u(0)?),
            "lv" => Lv, "lang" => Lang(u(0)?),
            "srd" => SRd(u(0)?, w(1)?, u(2)?, ex_parse(f.get(3)?)?), "rsrd" => RSRd(u(0)?, w(1)?),
            "mrd" => MRd(u(0)?, u(1)?, ex_parse(f.get(2)?)?), "rmrd" => RMRd(u(0)?),
            "aux" => Aux(u(0)?), "caux" => CAux, "nop" => Nop(u(0)?),
            _ => return None,
        })
    }
    /// apply to the real builder
    fn apply(&self, s: StagingTransaction) -> Result<StagingTransaction, String> {
        use Op::*;
        let inp = |h: &usize, i: &u64| Input::new(Hash::<32>::from(hash32(*h)), *i);
        let exu = |e: &Option<(u64, u64)>| e.map(|(mem, steps)| ExUnits { mem, steps });
        Ok(match self {
            In(h, i) => s.input(inp(h, i)), RIn(h, i) => s.remove_input(inp(h, i)),
            Ref(h, i) => s.reference_input(inp(h, i)), RRef(h, i) => s.remove_reference_input(inp(h, i)),
            Col(h, i) => s.collateral_input(inp(h, i)), RCol(h, i) => s.remove_collateral_input(inp(h, i)),
            Out(o) => s.output(o.real()), ROut(i) => s.remove_output(*i), COut(o) => s.collateral_output(o.real()), CCOut => s.clear_collateral_output(),
            Fee(n) => s.fee(*n), CFee => s.clear_fee(),
            Mint(p, n, a) => s.mint_asset(Hash::<28>::from(pol(*p)), NAMES[*n % 7].to_vec(), *a).map_err(|e| format!("{:?}", e))?,
            RMint(p, n) => s.remove_mint_asset(Hash::<28>::from(pol(*p)), NAMES[*n % 7].to_vec()),
            Vf(n) => s.valid_from_slot(*n), CVf => s.clear_valid_from_slot(), If(n) => s.invalid_from_slot(*n), CIf => s.clear_invalid_from_slot(),
            Net(n) => s.network_id(*n), CNet => s.clear_network_id(),
            Sg(k) => s.disclosed_signer(Hash::<28>::from(keyhash(*k))), RSg(k) => s.remove_disclosed_signer(Hash::<28>::from(keyhash(*k))),
            Scr(x) => { let (k, b) = script(*x); s.script(k, b) }
            RScr(x) => s.remove_script_by_hash(Hash::<28>::from(script_key(*x))),
            DatO(d) => s.datum(pd(*d)), RDat(d) => s.remove_datum(pd(*d)),
            RDatH(d) => s.remove_datum_by_hash(Hash::<32>::from(datum_key(*d))),
            RDatT(d) => s.remove_datum_by_hash(Hasher::<256>::hash(&pd(*d))),
            Lv => s.language_views(conway::LanguageViews::from_iter([(1u8, vec![1i64, 2, 3])])),
            Lang(k) => s.add_language(kind_of(*k), vec![10, 20, 30]),
            SRd(h, i, d, e) => s.add_spend_redeemer(inp(h, i), pd(*d), exu(e)), RSRd(h, i) => s.remove_spend_redeemer(inp(h, i)),
            MRd(p, d, e) => s.add_mint_redeemer(Hash::<28>::from(pol(*p)), pd(*d), exu(e)), RMRd(p) => s.remove_mint_redeemer(Hash::<28>::from(pol(*p))),
            Aux(x) => s.add_auxiliary_data(aux(*x)), CAux => s.clear_auxiliary_data(),
            Nop(k) => match k % 4 { 0 => s.signature_amount_override(3), 1 => s.clear_signature_amount_override(), 2 => s.change_address(addr(0)), _ => s.clear_change_address() },
        })
    }
    fn coq(&self, t: &mut Terms) -> String {
        use Op::*;
        match self {
            In(h, i) => format!("OInput {}", t.input(&hash32(*h), *i)), RIn(h, i) => format!("ORemoveInput {}", t.input(&hash32(*h), *i)),
            Ref(h, i) => format!("ORefInput {}", t.input(&hash32(*h), *i)), RRef(h, i) => format!("ORemoveRefInput {}", t.input(&hash32(*h), *i)),
            Col(h, i) => format!("OCollIn {}", t.input(&hash32(*h), *i)), RCol(h, i) => format!("ORemoveCollIn {}", t.input(&hash32(*h), *i)),
            Out(o) => format!("OOutput {}", o.coq(t)), ROut(i) => format!("ORemoveOutput {}", i), COut(o) => format!("OCollOut {}", o.coq(t)), CCOut => "OClearCollOut".into(),
            Fee(n) => format!("OFee {}", n), CFee => "OClearFee".into(),
            Mint(p, n, a) => format!("OMint {} {} {}", t.h(&pol(*p)), coq_bytes(NAMES[*n % 7]), coq_z(*a)),
            RMint(p, n) => format!("ORemoveMint {} {}", t.h(&pol(*p)), coq_bytes(NAMES[*n % 7])),
            Vf(n) => format!("OValidFrom {}", n), CVf => "OClearValidFrom".into(), If(n) => format!("OInvalidFrom {}", n), CIf => "OClearInvalidFrom".into(),
            Net(n) => format!("ONetwork {}", n), CNet => "OClearNetwork".into(),
            Sg(k) => format!("OSigner {}", t.h(&keyhash(*k))), RSg(k) => format!("ORemoveSigner {}", t.h(&keyhash(*k))),
            Scr(x) => format!("OScript {} {}", t.h(&script_key(*x)), script_coq(*x, t)), RScr(x) => format!("ORemoveScript {}", t.h(&script_key(*x))),
            DatO(d) => format!("ODatum {} {} {}", t.h(&datum_key(*d)), t.b(&pd(*d)), coq_bool(PlutusData::decode_fragment(&pd(*d)).is_ok())),
            RDat(d) | RDatH(d) => format!("ORemoveDatum {}", t.h(&datum_key(*d))),
            RDatT(d) => format!("ORemoveDatum {}", t.h(&*Hasher::<256>::hash(&pd(*d)))),
            Lv => "OLangViews".into(), Lang(k) => if kind_of(*k) == ScriptKind::Native { "ONop".into() } else { "OLangViews".into() },
            SRd(h, i, d, e) => format!("OSpendRdmr {} {}", t.input(&hash32(*h), *i), rdmr_coq(*d, e, t)), RSRd(h, i) => format!("ORemoveSpendRdmr {}", t.input(&hash32(*h), *i)),
            MRd(p, d, e) => format!("OMintRdmr {} {}", t.h(&pol(*p)), rdmr_coq(*d, e, t)), RMRd(p) => format!("ORemoveMintRdmr {}", t.h(&pol(*p))),
            Aux(x) => format!("OAux {} {}", t.b(&aux(*x)), coq_bool(minicbor::decode::<conway::AuxiliaryData>(&aux(*x)).is_ok())),
            CAux => "OClearAux".into(), Nop(_) => "ONop".into(),
        }
    }
}

// ---------------------------------------------------------------- decoded view of the built tx
#[derive(Debug, Clone, PartialEq, Eq, PartialOrd, Ord)]
struct DOut { addr: Vec<u8>, coin: u64, assets: Vec<(Vec<u8>, Vec<(Vec<u8>, u64)>)>, datum: Option<(bool, Vec<u8>)>, script: Option<(u8, Vec<u8>)> }
#[derive(Debug, Default)]
struct Dec {
    inputs: Vec<(Vec<u8>, u64)>, outputs: Vec<DOut>, fee: u64, ttl: Option<u64>, vstart: Option<u64>,
    mint: Vec<(Vec<u8>, Vec<(Vec<u8>, i64)>)>, sdh: bool, collateral: Vec<(Vec<u8>, u64)>, signers: Vec<Vec<u8>>, network: Option<u8>,
    collret: Option<DOut>, refs: Vec<(Vec<u8>, u64)>, native: Vec<Vec<u8>>, pv: [Vec<Vec<u8>>; 3], datums: Vec<Vec<u8>>,
    rdmrs: Vec<(u8, u32, Vec<u8>, u64, u64)>, aux: Option<Vec<u8>>, aux_hash: Option<Vec<u8>>, other_fields: bool,
}
fn dout(o: &TransactionOutput) -> Option<DOut> {
    let TransactionOutput::PostAlonzo(o) = o else { return None };
    let (coin, assets) = match &o.value {
        Value::Coin(c) => (*c, vec![]),
        Value::Multiasset(c, m) => (*c, m.iter().map(|(p, a)| (p.to_vec(), a.iter().map(|(n, v)| (n.to_vec(), u64::from(v))).collect())).collect()),
    };
    let datum = o.datum_option.as_ref().map(|d| match &**d {
        DatumOption::Hash(h) => (false, h.to_vec()),
        DatumOption::Data(w) => (true, minicbor::to_vec(&w.0).unwrap()),
    });
    let script = o.script_ref.as_ref().map(|s| match &s.0 {
        ScriptRef::NativeScript(n) => (0u8, minicbor::to_vec(n).unwrap()),
        ScriptRef::PlutusV1Script(p) => (1, p.0.to_vec()), ScriptRef::PlutusV2Script(p) => (2, p.0.to_vec()), ScriptRef::PlutusV3Script(p) => (3, p.0.to_vec()),
    });
    Some(DOut { addr: o.address.to_vec(), coin, assets, datum, script })
}
fn decode(tx_bytes: &[u8]) -> Option<Dec> {
    let tx = conway::Tx::decode_fragment(tx_bytes).ok()?;
    let b = &tx.transaction_body;
    let w = &tx.transaction_witness_set;
    let ins = |v: &[conway::TransactionInput]| v.iter().map(|i| (i.transaction_id.to_vec(), i.index)).collect::<Vec<_>>();
    let mut d = Dec::default();
    d.inputs = ins(&b.inputs);
    for o in b.outputs.iter() { d.outputs.push(dout(o)?); }
    d.fee = b.fee; d.ttl = b.ttl; d.vstart = b.validity_interval_start;
    d.mint = b.mint.iter().flat_map(|m| m.iter()).map(|(p, a)| (p.to_vec(), a.iter().map(|(n, v)| (n.to_vec(), i64::from(v))).collect())).collect();
    d.sdh = b.script_data_hash.is_some();
    d.collateral = b.collateral.as_ref().map(|c| ins(c)).unwrap_or_default();
    d.signers = b.required_signers.as_ref().map(|c| c.iter().map(|h| h.to_vec()).collect()).unwrap_or_default();
    d.network = b.network_id.map(u8::from);
    d.collret = match &b.collateral_return { None => None, Some(o) => Some(dout(o)?) };
    d.refs = b.reference_inputs.as_ref().map(|c| ins(c)).unwrap_or_default();
    d.aux_hash = b.auxiliary_data_hash.map(|h| h.to_vec());
    d.other_fields = b.certificates.is_some() || b.withdrawals.is_some() || b.total_collateral.is_some() || b.voting_procedures.is_some()
        || b.proposal_procedures.is_some() || b.treasury_value.is_some() || b.donation.is_some() || w.vkeywitness.is_some() || w.bootstrap_witness.is_some() || !tx.success;
    d.native = w.native_script.iter().flat_map(|s| s.iter()).map(|n| minicbor::to_vec(n).unwrap()).collect();
    d.pv[0] = w.plutus_v1_script.iter().flat_map(|s| s.iter()).map(|p| p.0.to_vec()).collect();
    d.pv[1] = w.plutus_v2_script.iter().flat_map(|s| s.iter()).map(|p| p.0.to_vec()).collect();
    d.pv[2] = w.plutus_v3_script.iter().flat_map(|s| s.iter()).map(|p| p.0.to_vec()).collect();
    d.datums = w.plutus_data.iter().flat_map(|s| s.iter()).map(|p| minicbor::to_vec(p).unwrap()).collect();
    if let Some(r) = &w.redeemer {
        match &**r {
            Redeemers::List(l) => for x in l { d.rdmrs.push((x.tag as u8, x.index, minicbor::to_vec(&x.data).unwrap(), x.ex_units.mem, x.ex_units.steps)); },
            Redeemers::Map(m) => for (k, v) in m.iter() { d.rdmrs.push((k.tag as u8, k.index, minicbor::to_vec(&v.data).unwrap(), v.ex_units.mem, v.ex_units.steps)); },
        }
    }
    d.aux = match &tx.auxiliary_data { pallas_codec::utils::Nullable::Some(a) => Some(minicbor::to_vec(a).unwrap()), _ => None };
    Some(d)
}

// ---------------------------------------------------------------- the staged content
fn has_zero(v: &serde_json::Value) -> bool {
    v.as_object().map(|m| m.values().any(|a| a.as_object().map(|x| x.values().any(|q| q.as_i64() == Some(0) || q.as_u64() == Some(0))).unwrap_or(false))).unwrap_or(false)
}
fn sorted<T: Ord + Clone>(v: &[T]) -> Vec<T> { let mut x = v.to_vec(); x.sort(); x }

/// What the caller staged, followed from the operations themselves (NOT read back from the
/// builder): an item removed / cleared is no longer staged at all (every copy of it); a call the
/// builder refuses or documents as ignored (undecodable auxiliary data) leaves the previously
/// staged content in place; inputs, scripts, datums and redeemers are sets / maps.
#[derive(Default, Debug)]
struct Exp {
    inputs: Vec<(Vec<u8>, u64)>, refs: Vec<(Vec<u8>, u64)>, colls: Vec<(Vec<u8>, u64)>, outputs: Vec<DOut>, fee: Option<u64>,
    mint: BTreeMap<(Vec<u8>, Vec<u8>), i64>, vf: Option<u64>, ifs: Option<u64>, net: Option<u8>, collout: Option<DOut>,
    signers: Vec<Vec<u8>>, scripts: BTreeSet<(u8, Vec<u8>)>, datums: BTreeSet<Vec<u8>>,
    rdmrs: BTreeMap<String, (Vec<u8>, Option<(u64, u64)>)>, lv: bool, aux: Option<Vec<u8>>,
}
fn exp_out(o: &OutSpec) -> DOut {
    let mut m: BTreeMap<Vec<u8>, BTreeMap<Vec<u8>, u64>> = BTreeMap::new();
    for (p, n, v) in &o.assets { *m.entry(pol(*p).to_vec()).or_default().entry(NAMES[*n % 6].to_vec()).or_default() += *v; }
    let assets = m.into_iter().map(|(p, l)| (p, l.into_iter().filter(|e| e.1 != 0).collect::<Vec<_>>())).filter(|e| !e.1.is_empty()).collect();
    DOut { addr: addr(o.addr).to_vec(), coin: o.lovelace, assets,
        datum: o.datum.as_ref().map(|d| match d { Dat::H(h) => (false, hash32(*h).to_vec()), Dat::I(i) => (true, pd(*i)) }),
        script: o.script.map(|x| { let (k, b) = script(x); (kind_z(k), b) }) }
}
impl Exp {
    fn step(&mut self, op: &Op) {
        use Op::*;
        let i = |h: &usize, ix: &u64| (hash32(*h).to_vec(), *ix);
        match op {
            In(h, x) => self.inputs.push(i(h, x)), RIn(h, x) => { let k = i(h, x); self.inputs.retain(|e| *e != k) }
            Ref(h, x) => self.refs.push(i(h, x)), RRef(h, x) => { let k = i(h, x); self.refs.retain(|e| *e != k) }
            Col(h, x) => self.colls.push(i(h, x)), RCol(h, x) => { let k = i(h, x); self.colls.retain(|e| *e != k) }
            Out(o) => self.outputs.push(exp_out(o)), ROut(ix) => { if *ix < self.outputs.len() { self.outputs.remove(*ix); } }
            COut(o) => self.collout = Some(exp_out(o)), CCOut => self.collout = None,
            Fee(n) => self.fee = Some(*n), CFee => self.fee = None,
            Mint(p, n, a) => { if NAMES[*n % 7].len() <= 32 { let e = self.mint.entry((pol(*p).to_vec(), NAMES[*n % 7].to_vec())).or_insert(0); *e = e.wrapping_add(*a); } }
            RMint(p, n) => { self.mint.remove(&(pol(*p).to_vec(), NAMES[*n % 7].to_vec())); }
            Vf(n) => self.vf = Some(*n), CVf => self.vf = None, If(n) => self.ifs = Some(*n), CIf => self.ifs = None,
            Net(n) => self.net = Some(*n), CNet => self.net = None,
            Sg(k) => self.signers.push(keyhash(*k).to_vec()), RSg(k) => { let h = keyhash(*k).to_vec(); self.signers.retain(|e| *e != h) }
            Scr(x) => { let (k, b) = script(*x); self.scripts.insert((kind_z(k), b)); }
            RScr(x) => { let (k, b) = script(*x); self.scripts.remove(&(kind_z(k), b)); }
            DatO(d) => { self.datums.insert(pd(*d)); }
            RDat(d) | RDatH(d) | RDatT(d) => { self.datums.remove(&pd(*d)); }
            Lv => self.lv = true, Lang(k) => { if kind_of(*k) != ScriptKind::Native { self.lv = true; } }
            SRd(h, x, d, e) => { self.rdmrs.insert(format!("spend:{}#{}", hex(&hash32(*h)), x), (pd(*d), *e)); }
            RSRd(h, x) => { self.rdmrs.remove(&format!("spend:{}#{}", hex(&hash32(*h)), x)); }
            MRd(p, d, e) => { self.rdmrs.insert(format!("mint:{}", hex(&pol(*p))), (pd(*d), *e)); }
            RMRd(p) => { self.rdmrs.remove(&format!("mint:{}", hex(&pol(*p)))); }
            // documented: invalid CBOR is silently ignored -> the last successfully staged value stays
            Aux(x) => { if let Ok(a) = minicbor::decode::<conway::AuxiliaryData>(&aux(*x)) { self.aux = Some(minicbor::to_vec(&a).unwrap()); } }
            CAux => self.aux = None,
            Nop(_) => {}
        }
    }
    fn mint_list(&self) -> Vec<(Vec<u8>, Vec<(Vec<u8>, i64)>)> {
        let mut m: BTreeMap<Vec<u8>, Vec<(Vec<u8>, i64)>> = BTreeMap::new();
        for ((p, n), v) in &self.mint { if *v != 0 { m.entry(p.clone()).or_default().push((n.clone(), *v)); } }
        m.into_iter().collect()
    }
}

/// The property's predicate on (staged content, built transaction). First failure only.
fn oracle(e: &Exp, id: &[u8; 32], tx_bytes: &[u8], text: &str) -> bool {
    let fail = |k: &str, m: String| -> bool { emit_oracle_fail(k, &format!("{} : {}", text, m)); false };
    let short = |v: &[(Vec<u8>, u64)]| v.iter().map(|i| format!("{}..{}#{}", hex(&i.0[..1]), hex(&i.0[31..]), i.1)).collect::<Vec<_>>();
    let Some(items) = tx_items(tx_bytes) else { return fail("scan", format!("independent scan cannot split tx {}", hex(tx_bytes))) };
    if *Hasher::<256>::hash(items[0]) != *id { return fail("id-not-body-hash", format!("id {} but Blake2b-256(body) {}", hex(id), hex(&*Hasher::<256>::hash(items[0])))); }
    let Some(d) = decode(tx_bytes) else { return fail("undecodable", format!("built bytes do not decode as a Conway tx: {}", hex(tx_bytes))) };
    if d.other_fields { return fail("extra-fields", "fields nobody staged are present".into()); }
    // inputs: exactly the staged set, in canonical (strictly increasing) order
    let canon: Vec<(Vec<u8>, u64)> = e.inputs.iter().cloned().collect::<BTreeSet<_>>().into_iter().collect();
    if d.inputs.iter().cloned().collect::<BTreeSet<_>>() != canon.iter().cloned().collect::<BTreeSet<_>>() {
        return fail("inputs", format!("built tx spends {:?} but the staged inputs are {:?}", short(&d.inputs), short(&canon)));
    }
    if d.inputs != canon { return fail("inputs-unsorted", format!("{:?} (canonical {:?})", short(&d.inputs), short(&canon))); }
    if d.outputs != e.outputs { return fail("outputs", format!("decoded {:?} staged {:?}", d.outputs, e.outputs)); }
    if d.fee != e.fee.unwrap_or(0) { return fail("fee", format!("{} vs {:?}", d.fee, e.fee)); }
    if d.ttl != e.ifs || d.vstart != e.vf { return fail("validity", format!("{:?}/{:?} vs {:?}/{:?}", d.vstart, d.ttl, e.vf, e.ifs)); }
    if d.mint != e.mint_list() { return fail("mint", format!("decoded {:?} staged {:?}", d.mint, e.mint_list())); }
    if d.collateral != e.colls { return fail("collateral", format!("{:?} vs {:?}", short(&d.collateral), short(&e.colls))); }
    if d.refs != e.refs { return fail("reference-inputs", format!("{:?} vs {:?}", short(&d.refs), short(&e.refs))); }
    if d.signers != e.signers { return fail("signers", format!("{:?} vs {:?}", d.signers.len(), e.signers.len())); }
    if d.network != e.net { return fail("network-id", format!("{:?} vs {:?}", d.network, e.net)); }
    if d.collret != e.collout { return fail("collateral-return", format!("{:?} vs {:?}", d.collret, e.collout)); }
    // scripts and datums: as sets
    let of_kind = |k: u8| e.scripts.iter().filter(|s| s.0 == k).map(|s| s.1.clone()).collect::<Vec<_>>();
    if sorted(&d.native) != of_kind(0) { return fail("scripts-native", format!("{:?} vs {:?}", d.native, of_kind(0))); }
    for v in 0..3 { if sorted(&d.pv[v]) != of_kind(v as u8 + 1) { return fail("scripts-plutus", format!("v{}: {:?} vs {:?}", v + 1, d.pv[v], of_kind(v as u8 + 1))); } }
    let datums: Vec<Vec<u8>> = e.datums.iter().cloned().collect();
    if sorted(&d.datums) != datums { return fail("datums", format!("built tx carries {:?} but the staged datums are {:?}", d.datums, datums)); }
    // auxiliary data (the last successfully staged value) and its hash
    if d.aux != e.aux { return fail("aux-data", format!("built tx carries {:?} but the staged auxiliary data is {:?}", d.aux.as_ref().map(|x| hex(x)), e.aux.as_ref().map(|x| hex(x)))); }
    match (&d.aux, &d.aux_hash) {
        (None, None) => {}
        (Some(_), Some(h)) => if *Hasher::<256>::hash(items[3]) != h[..] { return fail("aux-hash", format!("{} vs Blake2b-256 of the aux item", hex(h))); },
        _ => return fail("aux-hash", "auxiliary data and its hash do not come together".into()),
    }
    if d.sdh != e.lv { return fail("script-data-hash", format!("present {} but language views staged {}", d.sdh, e.lv)); }
    // redeemers: each staged one appears once and points at its target in the ledger's canonical order
    // (index into the sorted *set* of staged inputs / sorted minting policies)
    let canon_pol: Vec<Vec<u8>> = e.mint_list().into_iter().map(|x| x.0).collect();
    if d.rdmrs.len() != e.rdmrs.len() { return fail("redeemer-count", format!("{} built, {} staged", d.rdmrs.len(), e.rdmrs.len())); }
    let mut seen = BTreeSet::new();
    for (tag, ix, data, mem, steps) in &d.rdmrs {
        let target = match tag {
            0 => canon.get(*ix as usize).map(|i| format!("spend:{}#{}", hex(&i.0), i.1)),
            1 => canon_pol.get(*ix as usize).map(|p| format!("mint:{}", hex(p))),
            _ => None,
        };
        let Some(target) = target else { return fail("redeemer-pointer", format!("redeemer (tag {}, index {}) points outside the {} inputs / {} policies", tag, ix, canon.len(), canon_pol.len())) };
        match e.rdmrs.get(&target) {
            None => return fail("redeemer-pointer", format!("redeemer (tag {}, index {}) points at {} which has no staged redeemer", tag, ix, target)),
            Some(x) => {
                if &x.0 != data || x.1 != Some((*mem, *steps)) { return fail("redeemer-pointer", format!("redeemer (tag {}, index {}) points at {} but carries another redeemer's data/budget", tag, ix, target)); }
                if !seen.insert(target.clone()) { return fail("redeemer-pointer", format!("two redeemers point at {}", target)); }
            }
        }
    }
    true
}

fn dout_coq(o: &DOut, t: &mut Terms) -> String {
    let assets = coq_list(&o.assets, |_| String::new()); let _ = assets;
    let a: Vec<String> = o.assets.iter().map(|(p, l)| format!("({},{})", t.h(p), coq_list(l, |(n, v)| format!("({},{})", coq_bytes(n), v)))).collect();
    let d = match &o.datum { None => "None".to_string(), Some((i, b)) => format!("(Some ({},{}))", coq_bool(*i), t.b(b)) };
    let s = match &o.script { None => "None".to_string(), Some((k, b)) => format!("(Some ({},{}))", k, t.b(b)) };
    format!("({},{},{},{},{})", t.b(&o.addr), o.coin, coq_list(&a, |x| x.clone()), d, s)
}
fn dec_coq(d: &Dec, t: &mut Terms) -> String {
    let ins = |v: &[(Vec<u8>, u64)], t: &mut Terms| { let x: Vec<String> = v.iter().map(|i| t.input(&i.0, i.1)).collect(); coq_list(&x, |s| s.clone()) };
    let blobs = |v: &[Vec<u8>], t: &mut Terms| { let x: Vec<String> = v.iter().map(|b| t.b(b)).collect(); coq_list(&x, |s| s.clone()) };
    let outs: Vec<String> = d.outputs.iter().map(|o| dout_coq(o, t)).collect();
    let mint: Vec<String> = d.mint.iter().map(|(p, l)| format!("({},{})", t.h(p), coq_list(l, |(n, v)| format!("({},{})", coq_bytes(n), coq_z(*v))))).collect();
    let signers: Vec<String> = d.signers.iter().map(|h| t.h(h)).collect();
    let rd: Vec<String> = d.rdmrs.iter().map(|(tag, ix, data, m, s)| format!("({},{},{},{},{})", tag, ix, t.b(data), m, s)).collect();
    format!("(mkAtx {} {} {} {} {} {} {} {} {} {} {} {} {} {} {} {} {} {} {})",
        ins(&d.inputs, t), coq_list(&outs, |s| s.clone()), d.fee, coq_opt(&d.ttl, |x| x.to_string()), coq_opt(&d.vstart, |x| x.to_string()),
        coq_list(&mint, |s| s.clone()), coq_bool(d.sdh), ins(&d.collateral, t), coq_list(&signers, |s| s.clone()),
        coq_opt(&d.network, |x| x.to_string()), match &d.collret { None => "None".to_string(), Some(o) => format!("(Some {})", dout_coq(o, t)) },
        ins(&d.refs, t), blobs(&d.native, t), blobs(&d.pv[0], t), blobs(&d.pv[1], t), blobs(&d.pv[2], t), blobs(&d.datums, t),
        coq_list(&rd, |s| s.clone()), match &d.aux { None => "None".to_string(), Some(a) => format!("(Some {})", t.b(a)) })
}

fn err_class(e: &str) -> i64 {
    if e.contains("MalformedScript") { 1 } else if e.contains("MalformedDatumHash") { 3 } else if e.contains("MalformedDatum") { 2 }
    else if e.contains("RedeemerTargetMissing") { 4 } else if e.contains("InvalidNetworkId") { 5 } else if e.contains("AssetNameTooLong") { 8 } else { 9 }
}

fn run_case(ops: &[Op], tag: &str, oracle_only: bool) {
    let text = ops.iter().map(|o| o.tok()).collect::<Vec<_>>().join(",");
    let mut t = Terms::new();
    let coq_ops: Vec<String> = ops.iter().map(|o| o.coq(&mut t)).collect();
    let mut st = Some(StagingTransaction::new());
    let mut out: Option<String> = None;
    let mut exp = Exp::default();
    for (n, op) in ops.iter().enumerate() {
        let s = st.take().unwrap();
        match guard(|| op.apply(s)) {
            Out::Ok(s2) => { st = Some(s2); exp.step(op); }
            // a staging method refusing / panicking is outside this property (it is about build); recorded for the tie
            Out::Err(e) => { out = Some(format!("Err {}", err_class(&e))); emit_stat("staging_op_err", 1); let _ = n; break; }
            Out::Panic(m) => { out = Some(format!("Panic {}", panic_class(&m))); emit_stat("staging_op_panic", 1); break; }
        }
    }
    if let Some(s) = st {
        let js = serde_json::to_value(&s).expect("staging json");
        match guard(|| s.build_conway_raw().map_err(|e| format!("{:?}", e))) {
            Out::Panic(m) => {
                let key = if m.contains("ExUnits budget calculation") { "panic:todo-exunits" }
                    else if has_zero(&js["mint"]) { "panic:zero-mint-amount" }
                    else if js["outputs"].as_array().map(|a| a.iter().any(|o| has_zero(&o["assets"]))).unwrap_or(false) || has_zero(&js["collateral_output"]["assets"]) { "panic:zero-output-asset" }
                    else { "panic:other" };
                emit_oracle_fail(key, &format!("{} : build_conway_raw panicked: {}", text, m));
                out = Some(format!("Panic {}", panic_class(&m)));
            }
            Out::Err(e) => { out = Some(format!("Err {}", err_class(&e))); emit_stat("build_err", 1); }
            Out::Ok(b) => {
                oracle(&exp, &b.tx_hash.0, &b.tx_bytes.0, &text);
                emit_stat("build_ok", 1);
                out = Some(match decode(&b.tx_bytes.0) { Some(d) => format!("Ok {}", dec_coq(&d, &mut t)), None => "Err 99".into() });
            }
        }
    }
    if oracle_only { return; }
    let term = format!("({},{})", coq_list(&coq_ops, |s| s.clone()), out.unwrap());
    emit_case(tag, &t.hz.close(&term));
}

// ---------------------------------------------------------------- generators
fn gen_out(r: &mut Rng, zero_ok: bool) -> OutSpec {
    let mut assets = vec![];
    if r.chance(2, 5) { for _ in 0..r.range(1, 3) { assets.push((r.below(3) as usize, r.below(5) as usize, *r.pick(&[1u64, 1, 5, 7, 1000, if zero_ok { 0 } else { 2 }]))); } }
    let datum = match r.below(8) { 0 => Some(Dat::H(r.below(4) as usize)), 1 | 2 => Some(Dat::I(r.below(5) as usize)), 3 if zero_ok => Some(Dat::I(5 + r.below(3) as usize)), _ => None };
    let script = match r.below(10) { 0 => Some(r.below(3) as usize), 1 => Some(5 + r.below(4) as usize), 2 if zero_ok => Some(3 + r.below(2) as usize), _ => None };
    OutSpec { addr: r.below(4) as usize, lovelace: *r.pick(&[0u64, 1_000_000, 2_500_000, u64::MAX]), assets, datum, script }
}
fn gen_op(r: &mut Rng, wild: bool) -> Op {
    use Op::*;
    let h = |r: &mut Rng| r.below(6) as usize;
    let ix = |r: &mut Rng| *r.pick(&[0u64, 0, 1, 2, 7]);
    let ex = |r: &mut Rng, wild: bool| if wild && r.chance(1, 12) { None } else { Some((r.below(1000), r.below(100000))) };
    let d = |r: &mut Rng, wild: bool| if wild && r.chance(1, 15) { 5 + r.below(3) as usize } else { r.below(5) as usize };
    match r.below(100) {
        0..=14 => In(h(r), ix(r)), 15..=17 => RIn(h(r), ix(r)), 18..=20 => Ref(h(r), ix(r)), 21 => RRef(h(r), ix(r)),
        22..=24 => Col(h(r), ix(r)), 25 => RCol(h(r), ix(r)),
        26..=33 => Out(gen_out(r, wild)), 34 => ROut(if wild && r.chance(1, 4) { 9 } else { r.below(2) as usize }), 35..=36 => COut(gen_out(r, wild)), 37 => CCOut,
        38..=40 => Fee(*r.pick(&[0u64, 170_000, u64::MAX])), 41 => CFee,
        42..=53 => {
            let (big, small) = (wild && r.chance(1, 4), wild && r.chance(1, 4));
            Mint(r.below(3) as usize, if wild && r.chance(1, 30) { 6 } else { r.below(5) as usize },
                 *r.pick(&[1i64, -1, 5, -5, 5, -5, 100, -100, if wild { 0 } else { 3 }, if big { i64::MAX } else { 2 }, if small { i64::MIN } else { -2 }]))
        }
        54..=55 => RMint(r.below(3) as usize, r.below(5) as usize),
        56..=57 => Vf(*r.pick(&[0u64, 100, u64::MAX])), 58 => CVf, 59..=60 => If(*r.pick(&[0u64, 5000, u64::MAX])), 61 => CIf,
        62..=63 => Net(if wild { *r.pick(&[0u8, 1, 2, 255]) } else { r.below(2) as u8 }), 64 => CNet,
        65..=67 => Sg(r.below(3) as usize), 68 => RSg(r.below(3) as usize),
        69..=73 => Scr(if wild && r.chance(1, 10) { 3 + r.below(2) as usize } else { *r.pick(&[0usize, 1, 2, 5, 6, 7, 8]) }), 74 => RScr(r.below(9) as usize),
        75..=78 => DatO(d(r, wild)), 79 => RDat(r.below(5) as usize), 80 => RDatH(r.below(5) as usize), 81 => RDatT(r.below(5) as usize),
        82 => Lv, 83 => Lang(r.below(4) as usize),
        84..=89 => SRd(h(r), ix(r), d(r, wild), ex(r, wild)), 90 => RSRd(h(r), ix(r)),
        91..=94 => MRd(r.below(3) as usize, d(r, wild), ex(r, wild)), 95 => RMRd(r.below(3) as usize),
        96..=97 => Aux(if wild { r.below(6) as usize } else { r.below(4) as usize }), 98 => CAux, _ => Nop(r.below(4) as usize),
    }
}
/// a sequence built to succeed: inputs first, redeemers only on staged inputs / minted policies
fn gen_coherent(r: &mut Rng) -> Vec<Op> {
    use Op::*;
    let mut ops = vec![];
    let mut ins = vec![];
    for _ in 0..r.range(1, 5) { let i = (r.below(6) as usize, *r.pick(&[0u64, 1, 2, 7])); ins.push(i); ops.push(In(i.0, i.1)); }
    if r.chance(1, 4) { let i = *r.pick(&ins); ops.push(In(i.0, i.1)); } // a duplicate
    for _ in 0..r.below(3) { ops.push(Out(gen_out(r, false))); }
    let mut pols = vec![];
    for _ in 0..r.below(4) { let p = r.below(3) as usize; pols.push(p); ops.push(Mint(p, r.below(5) as usize, *r.pick(&[1i64, 5, -5, 100]))); }
    if r.chance(1, 3) && !pols.is_empty() { let p = *r.pick(&pols); ops.push(Mint(p, 1, 5)); ops.push(Mint(p, 1, -5)); }
    for _ in 0..r.below(4) { let i = *r.pick(&ins); ops.push(SRd(i.0, i.1, r.below(5) as usize, Some((r.below(1000), r.below(100000))))); }
    for _ in 0..r.below(3) { if !pols.is_empty() { let p = *r.pick(&pols); ops.push(MRd(p, r.below(5) as usize, Some((r.below(1000), r.below(100000))))); } }
    for _ in 0..r.below(3) { ops.push(Scr(*r.pick(&[0usize, 1, 2, 5, 6, 7, 8]))); }
    for _ in 0..r.below(3) { ops.push(DatO(r.below(5) as usize)); }
    for _ in 0..r.below(6) { ops.push(gen_op(r, false)); }
    if r.bool() { ops.push(Fee(170_000 + r.below(1000))); }
    // shuffle a little: the order of staging calls must not matter for pointers
    for _ in 0..r.below(4) { let (a, b) = (r.below(ops.len() as u64) as usize, r.below(ops.len() as u64) as usize); ops.swap(a, b); }
    ops
}

/// the operation that un-stages what `op` staged
fn remover(op: &Op, r: &mut Rng) -> Option<Op> {
    use Op::*;
    Some(match op {
        In(h, i) => RIn(*h, *i), Ref(h, i) => RRef(*h, *i), Col(h, i) => RCol(*h, *i), Sg(k) => RSg(*k), Scr(x) => RScr(*x),
        DatO(d) => match r.below(3) { 0 => RDat(*d), 1 => RDatH(*d), _ => RDatT(*d) },
        Mint(p, n, _) => RMint(*p, *n), SRd(h, i, ..) => RSRd(*h, *i), MRd(p, ..) => RMRd(*p),
        Fee(_) => CFee, Vf(_) => CVf, If(_) => CIf, Net(_) => CNet, COut(_) => CCOut, Aux(_) => CAux,
        _ => return None,
    })
}
/// random ops in which earlier staging calls are repeated (adjacent or not) and later removed / cleared
fn gen_seq(r: &mut Rng, n: u64, wild: bool) -> Vec<Op> {
    let mut ops: Vec<Op> = vec![];
    for _ in 0..n {
        let adds: Vec<Op> = ops.iter().filter(|o| remover(o, &mut Rng::new(0)).is_some()).cloned().collect();
        let op = match r.below(10) {
            0 | 1 if !adds.is_empty() => r.pick(&adds).clone(),                          // stage the same item again
            2 | 3 if !adds.is_empty() => { let a = r.pick(&adds).clone(); remover(&a, r).unwrap() } // un-stage an earlier item
            _ => gen_op(r, wild),
        };
        ops.push(op);
    }
    ops
}
/// a history built to succeed in which items are staged twice (adjacent / non-adjacent) and then removed,
/// with spend redeemers on inputs sorting around the removed one
fn gen_dup_remove(r: &mut Rng) -> Vec<Op> {
    use Op::*;
    let mut ops = vec![];
    let mut pool: Vec<(usize, u64)> = vec![];
    while pool.len() < 4 { let i = (r.below(6) as usize, *r.pick(&[0u64, 1, 2, 7])); if !pool.contains(&i) { pool.push(i); } }
    let gone = pool[0];
    let keep: Vec<(usize, u64)> = pool[1..1 + r.range(1, 3) as usize].to_vec();
    let mut stage: Vec<Op> = keep.iter().map(|i| In(i.0, i.1)).collect();
    for _ in 0..r.range(2, 3) { let at = r.below(stage.len() as u64 + 1) as usize; stage.insert(at, In(gone.0, gone.1)); } // copies, adjacent or not
    ops.extend(stage);
    for i in &keep { if r.bool() { ops.push(SRd(i.0, i.1, r.below(5) as usize, Some((r.below(1000), r.below(100000))))); } }
    if r.chance(1, 4) { ops.push(SRd(gone.0, gone.1, 0, Some((1, 2)))); if r.bool() { ops.push(RSRd(gone.0, gone.1)); } }
    ops.push(RIn(gone.0, gone.1));
    // the same pattern for the other collections / maps / optional fields
    for _ in 0..r.range(1, 4) {
        let base: Op = match r.below(12) {
            0 => Ref(r.below(6) as usize, r.below(3)), 1 => Col(r.below(6) as usize, r.below(3)), 2 => Sg(r.below(3) as usize),
            3 => Scr(*r.pick(&[0usize, 1, 2, 5, 6, 7, 8])), 4 => DatO(r.below(5) as usize), 5 => Mint(r.below(3) as usize, r.below(5) as usize, *r.pick(&[1i64, 5, -5])),
            6 => MRd(r.below(3) as usize, r.below(5) as usize, Some((3, 4))), 7 => Fee(r.below(1000)), 8 => Vf(r.below(100)), 9 => Net(r.below(2) as u8),
            10 => Aux(r.below(4) as usize), _ => COut(gen_out(r, false)),
        };
        let other: Op = match &base { Ref(h, i) => Ref((h + 1) % 6, *i), Col(h, i) => Col((h + 1) % 6, *i), Sg(k) => Sg((k + 1) % 3), Scr(_) => Scr(6), DatO(d) => DatO((d + 1) % 5), _ => Nop(0) };
        ops.push(base.clone());
        if r.bool() { ops.push(other); }
        ops.push(base.clone());
        if r.chance(3, 4) { ops.push(remover(&base, r).unwrap()); }
    }
    // auxiliary data: a refused (undecodable) call must not disturb what is staged
    match r.below(4) { 0 => { ops.push(Aux(r.below(4) as usize)); ops.push(Aux(4 + r.below(2) as usize)); } 1 => { ops.push(Aux(4 + r.below(2) as usize)); ops.push(Aux(r.below(4) as usize)); } _ => {} }
    if r.chance(1, 3) { let o = gen_out(r, false); ops.push(Out(o.clone())); ops.push(Out(o)); ops.push(ROut(r.below(2) as usize)); }
    // mint redeemers only build when their policy mints something
    let minted: Vec<usize> = (0..3).filter(|p| { let mut e = Exp::default(); for o in &ops { e.step(o); } e.mint_list().iter().any(|x| x.0 == pol(*p).to_vec()) }).collect();
    ops.retain(|o| match o { MRd(p, ..) => minted.contains(p), _ => true });
    ops
}

fn main() {
    let args = args();
    let mut rng = Rng::new(args.seed);
    let parse_line = |l: &str| -> Option<Vec<Op>> { l.trim().split(',').filter(|t| !t.is_empty()).map(Op::parse).collect() };
    // 1. corpus
    let dir = std::path::Path::new(&std::env::var("VERIF_DIR").unwrap_or_else(|_| ".".into())).join("corpus/C40");
    let mut files: Vec<_> = std::fs::read_dir(&dir).map(|d| d.filter_map(|e| e.ok()).map(|e| e.path()).collect()).unwrap_or_default();
    files.sort();
    for f in files {
        if f.extension().map(|e| e == "ops").unwrap_or(false) {
            for line in std::fs::read_to_string(&f).unwrap_or_default().lines() {
                if line.trim().is_empty() || line.starts_with('#') { continue; }
                match parse_line(line) { Some(ops) => run_case(&ops, "corpus", args.oracle_only), None => emit_stat("corpus_unparsed", 1) }
            }
        }
    }
    // 2. boundary sequences named by the property
    let fixed: &[&str] = &[
        "",
        "in:0:0,fee:170000",
        "in:0:0,mint:0:1:5,mint:0:1:-5",                                   // cancelling mint, only asset of the policy
        "in:0:0,mint:0:1:5,mint:0:2:7,mint:0:1:-5",                        // cancelling mint, policy keeps another asset
        "in:0:0,mint:0:1:5,mint:1:1:5,mint:0:1:-5,mrd:1:0:10-20",          // redeemer on the policy after a cancelled one
        "in:0:0,mint:0:1:5,mint:0:1:-5,mrd:0:0:10-20",                     // redeemer on a policy that mints nothing
        "in:0:0,mint:0:1:0",
        "in:0:0,out:0.1000000.0-1-0._._",                                  // zero asset amount in an output
        "in:0:0,out:0.1000000.0-1-0+0-2-5._._",
        "in:0:0,cout:0.1000000.1-1-0._._",
        "in:0:0,srd:0:0:0:_",                                              // missing ex-units
        "in:0:0,mint:0:1:5,mrd:0:0:_",
        "in:1:0,in:0:0,srd:1:0:0:1-2,srd:0:0:1:3-4",                       // pointers follow the sorted order
        "in:2:0,in:0:7,in:0:1,in:3:0,in:5:0,in:4:2,srd:4:2:0:1-2,srd:2:0:1:3-4,srd:3:0:2:5-6,srd:0:7:3:7-8",
        "in:0:0,in:0:0,in:1:0,srd:1:0:0:1-2",                              // duplicate input before the target
        "in:1:0,in:1:0,in:0:0,srd:1:0:0:1-2,srd:0:0:1:3-4",
        "in:0:0,mint:2:1:5,mint:0:1:5,mint:1:1:5,mrd:2:0:1-2,mrd:0:1:3-4,mrd:1:2:5-6",
        "in:0:0,srd:1:0:0:1-2",                                            // target missing
        "in:0:0,mrd:0:0:1-2",
        "in:0:0,in:1:0,rin:0:0,srd:0:0:0:1-2",
        "in:0:0,net:2", "in:0:0,net:1,net:0", "in:0:0,rout:0", "in:0:0,out:0.5._._._,rout:0", "in:0:0,mint:0:6:1",
        "in:0:0,mint:0:1:9223372036854775807,mint:0:1:1", "in:0:0,mint:0:1:-9223372036854775808,mint:0:1:-1",
        "in:0:0,scr:0,scr:1,scr:5,scr:6,scr:7,scr:8,rscr:1", "in:0:0,scr:3", "in:0:0,dat:0,dat:2,dat:0,rdat:2,dat:3", "in:0:0,dat:5", "in:0:0,dat:1,rdatt:1",
        "in:0:0,out:0.7._.h1.0,out:1.8._.i2.5,out:0.9._.i5._", "in:0:0,out:0.7._._.3",
        "in:0:0,aux:0", "in:0:0,aux:2,aux:4", "in:0:0,aux:3,caux", "in:0:0,lv,srd:0:0:0:1-2,dat:0", "in:0:0,lang:0", "in:0:0,lang:2",
        "in:0:0,col:1:0,col:0:0,ref:2:0,ref:0:1,sg:2,sg:0,cout:0.5._._._,vf:1,if:2,net:1",
        "in:0:0,mint:0:4:1,mint:0:3:1,mint:0:1:1,mint:0:0:1,mint:0:5:1,mint:0:2:1",   // asset-name ordering
        "in:0:0,out:0.1.2-4-1+2-3-1+0-1-1+0-0-1+3-2-7._._",
        // staged twice (adjacent / non-adjacent), then removed: the item is no longer staged at all
        "in:0:0,in:0:0,rin:0:0,in:1:0", "in:0:0,in:1:0,in:0:0,rin:0:0,srd:1:0:0:1-2", "in:2:0,in:0:0,in:1:0,in:0:0,in:0:0,rin:0:0,srd:1:0:0:1-2,srd:2:0:1:3-4",
        "in:1:0,in:0:0,in:0:0,rin:0:0,srd:0:0:0:1-2", "in:0:0,in:0:0,rin:0:0",
        "in:0:0,ref:1:0,ref:1:0,rref:1:0", "in:0:0,ref:1:0,ref:2:0,ref:1:0,rref:1:0", "in:0:0,col:1:0,col:1:0,rcol:1:0", "in:0:0,col:1:0,col:2:0,col:1:0,rcol:1:0",
        "in:0:0,sg:1,sg:1,rsg:1", "in:0:0,sg:1,sg:0,sg:1,rsg:1", "in:0:0,scr:1,scr:1,rscr:1", "in:0:0,scr:1,scr:5,scr:1,rscr:1,scr:8",
        "in:0:0,dat:1,dat:1,rdat:1", "in:0:0,dat:1,dat:0,dat:1,rdath:1", "in:0:0,dat:1,dat:0,dat:1,rdatt:1", "in:0:0,dat:2,rdatt:2",
        "in:0:0,mint:0:1:5,mint:0:1:5,rmint:0:1,mint:1:1:1", "in:0:0,mint:0:1:5,mint:1:1:1,mint:0:1:5,rmint:0:1,mrd:1:0:1-2",
        "in:0:0,out:0.5._._._,out:0.5._._._,rout:0", "in:0:0,out:0.5._._._,out:1.6._._._,out:0.5._._._,rout:0,rout:0",
        "in:0:0,srd:0:0:0:1-2,srd:0:0:1:3-4,rsrd:0:0", "in:0:0,mint:0:1:1,mrd:0:0:1-2,mrd:0:1:3-4,rmrd:0",
        "in:0:0,fee:1,fee:2,cfee", "in:0:0,vf:1,vf:2,cvf,if:3,if:4,cif", "in:0:0,net:0,net:1,cnet", "in:0:0,cout:0.5._._._,cout:1.6._._._,ccout",
        // a refused / ignored call leaves the previously staged content in place
        "in:0:0,aux:0,aux:4", "in:0:0,aux:4,aux:0", "in:0:0,aux:1,aux:5,aux:4", "in:0:0,aux:0,aux:5,aux:2,aux:4", "in:0:0,aux:0,aux:4,caux", "in:0:0,aux:4", "in:0:0,aux:0,aux:0,caux",
    ];
    for (j, f) in fixed.iter().enumerate() {
        let ops = parse_line(f).unwrap_or_else(|| panic!("bad fixed case {}", f));
        run_case(&ops, if j == 0 { "trivial-empty" } else { "boundary" }, args.oracle_only);
    }
    // 3. random sequences
    for i in 0..args.n {
        let (ops, tag) = match rng.below(12) {
            0..=3 => (gen_coherent(&mut rng), "coherent"),
            4..=6 => (gen_dup_remove(&mut rng), "duplicates-then-remove"),
            7..=8 => { let n = rng.range(1, 12); (gen_seq(&mut rng, n, false), "random-valid-values") }
            9 => { let n = rng.range(8, 30); (gen_seq(&mut rng, n, false), "random-long") }
            _ => { let n = rng.range(1, 14); (gen_seq(&mut rng, n, true), "wild") }
        };
        if i < 3 { emit_sample(&ops.iter().map(|o| o.tok()).collect::<Vec<_>>().join(",")); }
        run_case(&ops, tag, args.oracle_only);
    }
}
