//! Shared glue for the correspondence harness: one PRNG, Coq-term printers,
//! panic capture, and the line protocol read by vp/check.py.
//!
//! Line protocol (stdout, tab separated):
//!   CASE\t<tag>\t<coq term of the property's `case` type>
//!   ORACLE_FAIL\t<key>\t<free text: the failing input and what was observed>
//!   SAMPLE\t<free text>
//!   STAT\t<name>\t<integer>
use std::fmt::Write as _;
use std::panic::{catch_unwind, AssertUnwindSafe};

pub struct Args {
    pub seed: u64,
    pub n: usize,
    pub tier: String,
    pub oracle_only: bool,
    pub extra: Vec<String>,
}

pub fn args() -> Args {
    let mut a = Args { seed: 1, n: 200, tier: "quick".into(), oracle_only: false, extra: vec![] };
    let v: Vec<String> = std::env::args().skip(1).collect();
    let mut i = 0;
    while i < v.len() {
        match v[i].as_str() {
            "--seed" => { a.seed = v[i + 1].parse().expect("seed"); i += 2; }
            "--n" => { a.n = v[i + 1].parse().expect("n"); i += 2; }
            "--tier" => { a.tier = v[i + 1].clone(); i += 2; }
            "--oracle-only" => { a.oracle_only = true; i += 1; }
            _ => { a.extra.push(v[i].clone()); i += 1; }
        }
    }
    // keep panics quiet: they are data here
    std::panic::set_hook(Box::new(|_| {}));
    a
}

/// SplitMix64: every random choice of a run derives from one state.
#[derive(Clone)]
pub struct Rng(pub u64);
impl Rng {
    pub fn new(seed: u64) -> Self { Rng(seed.wrapping_mul(0x9E3779B97F4A7C15) ^ 0xD1B54A32D192ED03) }
    pub fn next(&mut self) -> u64 {
        self.0 = self.0.wrapping_add(0x9E3779B97F4A7C15);
        let mut z = self.0;
        z = (z ^ (z >> 30)).wrapping_mul(0xBF58476D1CE4E5B9);
        z = (z ^ (z >> 27)).wrapping_mul(0x94D049BB133111EB);
        z ^ (z >> 31)
    }
    pub fn below(&mut self, n: u64) -> u64 { if n == 0 { 0 } else { self.next() % n } }
    pub fn range(&mut self, lo: u64, hi: u64) -> u64 { lo + self.below(hi - lo + 1) }
    pub fn bool(&mut self) -> bool { self.next() & 1 == 1 }
    pub fn chance(&mut self, num: u64, den: u64) -> bool { self.below(den) < num }
    pub fn byte(&mut self) -> u8 { self.next() as u8 }
    pub fn bytes(&mut self, len: usize) -> Vec<u8> { (0..len).map(|_| self.byte()).collect() }
    pub fn pick<'a, T>(&mut self, xs: &'a [T]) -> &'a T { &xs[self.below(xs.len() as u64) as usize] }
    /// u64 biased towards boundaries (0, 1, 2^k-1, 2^k, 2^k+1, MAX)
    pub fn edge_u64(&mut self) -> u64 {
        match self.below(6) {
            0 => self.below(4),
            1 => { let k = self.below(64); (1u64 << k).wrapping_sub(1) }
            2 => { let k = self.below(64); 1u64 << k }
            3 => { let k = self.below(64); (1u64 << k).wrapping_add(1) }
            4 => u64::MAX - self.below(3),
            _ => self.next() >> self.below(64),
        }
    }
}

pub fn coq_z<T: std::fmt::Display>(v: T) -> String {
    let s = v.to_string();
    if s.starts_with('-') { format!("({})", s) } else { s }
}
pub fn coq_bool(b: bool) -> &'static str { if b { "true" } else { "false" } }
pub fn coq_list<T, F: Fn(&T) -> String>(xs: &[T], f: F) -> String {
    let mut s = String::from("[");
    for (i, x) in xs.iter().enumerate() {
        if i > 0 { s.push(';'); }
        s.push_str(&f(x));
    }
    s.push(']');
    s
}
pub fn coq_bytes(bs: &[u8]) -> String { coq_list(bs, |b| b.to_string()) }
pub fn coq_opt<T, F: Fn(&T) -> String>(x: &Option<T>, f: F) -> String {
    match x { None => "None".into(), Some(v) => format!("(Some {})", f(v)) }
}
pub fn hex(bs: &[u8]) -> String {
    let mut s = String::new();
    for b in bs { write!(s, "{:02x}", b).unwrap(); }
    s
}

/// Outcome of an implementation call: value, error (class only) or panic.
pub enum Out<T> { Ok(T), Err(String), Panic(String) }

pub fn guard<T, F: FnOnce() -> Result<T, String>>(f: F) -> Out<T> {
    match catch_unwind(AssertUnwindSafe(f)) {
        Ok(Ok(v)) => Out::Ok(v),
        Ok(Err(e)) => Out::Err(e),
        Err(p) => {
            let msg = if let Some(s) = p.downcast_ref::<&str>() { s.to_string() }
                      else if let Some(s) = p.downcast_ref::<String>() { s.clone() }
                      else { "panic".to_string() };
            Out::Panic(msg)
        }
    }
}
pub fn guard_total<T, F: FnOnce() -> T>(f: F) -> Out<T> { guard(|| Ok(f())) }

fn clean(s: &str) -> String { s.replace('\t', " ").replace('\n', " ") }
pub fn emit_case(tag: &str, term: &str) { println!("CASE\t{}\t{}", clean(tag), clean(term)); }
pub fn emit_oracle_fail(key: &str, what: &str) { println!("ORACLE_FAIL\t{}\t{}", clean(key), clean(what)); }
pub fn emit_sample(what: &str) { println!("SAMPLE\t{}", clean(what)); }
pub fn emit_stat(name: &str, v: u64) { println!("STAT\t{}\t{}", clean(name), v); }
