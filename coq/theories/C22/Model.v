(* C22 model: the hand-written mini-protocol message codecs of pallas-network
   (src/miniprotocols/*/codec.rs, handshake/protocol.rs, common.rs) and pallas-network2
   (src/protocol/*.rs), transcribed call for call as encoder scripts / decoder
   scripts over the minicbor call models of [Cbor.Api].

   An encoder is the byte string the sequence of [Encoder] calls writes
   ([e_array n ++ e_uint l ++ ...]: heads are written as *declared*, nothing forces a
   declared array length to match what follows); a decoder is the sequence of
   [Decoder] calls on the remaining input ([dres (value * rest)]).

   The codecs of the two stacks are textually the same for keepalive, blockfetch,
   chainsync, txsubmission, peersharing and handshake (checked by the differential
   run against both); the only difference is peersharing's [Port] type
   (u32 in pallas-network, u16 in pallas-network2) = parameter [pb] below.

   Conventions: integers are [Z]; byte strings / text / raw CBOR are [list Z];
   [AnyCbor] is the raw byte string it wraps; its decoder is [Decoder::skip] + the consumed
   slice = [d_skip_slice], the core's exact transcription of minicbor's skip loop (laxer than
   a strict item decoder on malformed input); a [HashMap]/[BTreeMap]
   is its strictly key-sorted association list (iteration order of
   [keys().sorted()] / of the BTreeMap), inserts are [bt_insert]. *)
From PV Require Import Lib.Base Cbor.Item Cbor.Enc Cbor.Dec Cbor.Api Cbor.Skip.
Open Scope Z_scope.

Notation "' pat <- c1 ;; c2" :=
  (dbind c1 (fun x => match x with pat => c2 end))
  (at level 61, pat pattern, c1 at next level, right associativity).

(* ------------------------------------------------------------------ common *)
Definition u8b : Z := 256.
Definition u16b : Z := 65536.
Definition u32b : Z := 4294967296.
Definition u64b : Z := 18446744073709551616.
Definition u128b : Z := 340282366920938463463374607431768211456.

Definition in_u (b n : Z) : bool := (0 <=? n) && (n <? b).
(* a byte string that can exist in memory: bytes, length below 2^64 *)
Definition wf_bytes (b : list Z) : bool := bytes_wfb b && (len b <? u64b).
(* a Rust [String] *)
Definition wf_text (s : list Z) : bool := wf_bytes s && utf8_valid s.
(* an [AnyCbor] that holds exactly one well-formed item (of a size whose double fits u64: the
   counters of Decoder::skip saturate beyond) *)
Definition is_item (raw : list Z) : bool :=
  match decode_all raw with DOk _ => true | _ => false end && (2 * len raw + 2 <? u64_max).

Definition len_is (l : option Z) (k : Z) : bool :=
  match l with Some n => n =? k | None => false end.

(* AnyCbor::decode: d.skip() and keep the consumed slice *)
Definition d_raw (bs : list Z) : dres (list Z * list Z) := d_skip_slice bs.

(* e.tag(IanaTag::Cbor)?; e.bytes(b)? *)
Definition e_cbor_bytes (b : list Z) : list Z := e_tag 24 ++ e_bytes b.
(* d.tag()?; d.bytes()?   (the tag number is not inspected) *)
Definition d_anytag_bytes (bs : list Z) : dres (list Z * list Z) :=
  '(_, r) <- d_tag bs ;; d_bytes r.
(* let tag = d.tag()?; if tag != IanaTag::Cbor.tag() { Err }; d.bytes()? *)
Definition d_tag24_bytes (bs : list Z) : dres (list Z * list Z) :=
  '(t, r) <- d_tag bs ;; if t =? 24 then d_bytes r else DErr.

(* e.begin_array()?; for x in xs { e.encode(x)? }; e.end()? *)
Definition e_indef_vec {A} (enc : A -> list Z) (xs : list A) : list Z :=
  e_begin_array ++ concat (map enc xs) ++ e_end.

(* ---- Point (common.rs of both stacks) ---- *)
Inductive point : Type := Origin | Specific (slot : Z) (hash : list Z).

Definition enc_point (p : point) : list Z :=
  match p with
  | Origin => e_array 0
  | Specific s h => e_array 2 ++ e_uint s ++ e_bytes h
  end.
Definition dec_point (bs : list Z) : dres (point * list Z) :=
  '(l, r) <- d_array bs ;;
  if len_is l 0 then DOk (Origin, r)
  else if len_is l 2 then
    '(s, r) <- d_u64 r ;; '(h, r) <- d_bytes r ;; DOk (Specific s h, r)
  else DErr.
Definition wf_point (p : point) : bool :=
  match p with Origin => true | Specific s h => in_u u64b s && wf_bytes h end.

(* ---- Tip (chainsync) ---- *)
Inductive tip : Type := Tip (p : point) (block_no : Z).
Definition enc_tip (t : tip) : list Z :=
  let '(Tip p n) := t in e_array 2 ++ enc_point p ++ e_uint n.
Definition dec_tip (bs : list Z) : dres (tip * list Z) :=
  '(_, r) <- d_array bs ;; '(p, r) <- dec_point r ;; '(n, r) <- d_u64 r ;; DOk (Tip p n, r).
Definition wf_tip (t : tip) : bool := let '(Tip p n) := t in wf_point p && in_u u64b n.

(* ------------------------------------------------------------------ keepalive *)
Inductive ka_msg : Type := KaKeepAlive (cookie : Z) | KaResponse (cookie : Z) | KaDone.

Definition ka_enc (m : ka_msg) : list Z :=
  match m with
  | KaKeepAlive c => e_array 2 ++ e_uint 0 ++ e_uint c
  | KaResponse c => e_array 2 ++ e_uint 1 ++ e_uint c
  | KaDone => e_array 1 ++ e_uint 2
  end.
Definition ka_dec (bs : list Z) : dres (ka_msg * list Z) :=
  '(_, r) <- d_array bs ;; '(l, r) <- d_u16 r ;;
  if l =? 0 then '(c, r) <- d_u16 r ;; DOk (KaKeepAlive c, r)
  else if l =? 1 then '(c, r) <- d_u16 r ;; DOk (KaResponse c, r)
  else if l =? 2 then DOk (KaDone, r)
  else DErr.
Definition ka_wf (m : ka_msg) : bool :=
  match m with KaKeepAlive c | KaResponse c => in_u u16b c | KaDone => true end.

(* ------------------------------------------------------------------ blockfetch *)
Inductive bf_msg : Type :=
| BfRequestRange (a b : point) | BfClientDone | BfStartBatch | BfNoBlocks
| BfBlock (body : list Z) | BfBatchDone.

Definition bf_enc (m : bf_msg) : list Z :=
  match m with
  | BfRequestRange a b => e_array 3 ++ e_uint 0 ++ enc_point a ++ enc_point b
  | BfClientDone => e_array 1 ++ e_uint 1
  | BfStartBatch => e_array 1 ++ e_uint 2
  | BfNoBlocks => e_array 1 ++ e_uint 3
  | BfBlock body => e_array 2 ++ e_uint 4 ++ e_cbor_bytes body
  | BfBatchDone => e_array 1 ++ e_uint 5
  end.
Definition bf_dec (bs : list Z) : dres (bf_msg * list Z) :=
  '(_, r) <- d_array bs ;; '(l, r) <- d_u16 r ;;
  if l =? 0 then '(a, r) <- dec_point r ;; '(b, r) <- dec_point r ;; DOk (BfRequestRange a b, r)
  else if l =? 1 then DOk (BfClientDone, r)
  else if l =? 2 then DOk (BfStartBatch, r)
  else if l =? 3 then DOk (BfNoBlocks, r)
  else if l =? 4 then '(b, r) <- d_anytag_bytes r ;; DOk (BfBlock b, r)
  else if l =? 5 then DOk (BfBatchDone, r)
  else DErr.
Definition bf_wf (m : bf_msg) : bool :=
  match m with
  | BfRequestRange a b => wf_point a && wf_point b
  | BfBlock body => wf_bytes body
  | _ => true
  end.

(* ------------------------------------------------------------------ chainsync *)
Inductive cs_msg (C : Type) : Type :=
| CsRequestNext | CsAwaitReply
| CsRollForward (c : C) (t : tip) | CsRollBackward (p : point) (t : tip)
| CsFindIntersect (ps : list point)
| CsIntersectFound (p : point) (t : tip) | CsIntersectNotFound (t : tip)
| CsDone.
Arguments CsRequestNext {C}.
Arguments CsAwaitReply {C}.
Arguments CsRollForward {C} c t.
Arguments CsRollBackward {C} p t.
Arguments CsFindIntersect {C} ps.
Arguments CsIntersectFound {C} p t.
Arguments CsIntersectNotFound {C} t.
Arguments CsDone {C}.

Section ChainSync.
  Context {C : Type} (encC : C -> list Z) (decC : list Z -> dres (C * list Z)) (wfC : C -> bool).

  Definition cs_enc (m : cs_msg C) : list Z :=
    match m with
    | CsRequestNext => e_array 1 ++ e_uint 0
    | CsAwaitReply => e_array 1 ++ e_uint 1
    | CsRollForward c t => e_array 3 ++ e_uint 2 ++ encC c ++ enc_tip t
    | CsRollBackward p t => e_array 3 ++ e_uint 3 ++ enc_point p ++ enc_tip t
    | CsFindIntersect ps => e_array 2 ++ e_uint 4 ++ e_vec enc_point ps
    | CsIntersectFound p t => e_array 3 ++ e_uint 5 ++ enc_point p ++ enc_tip t
    | CsIntersectNotFound t => e_array 2 ++ e_uint 6 ++ enc_tip t
    | CsDone => e_array 1 ++ e_uint 7
    end.
  Definition cs_dec (bs : list Z) : dres (cs_msg C * list Z) :=
    '(_, r) <- d_array bs ;; '(l, r) <- d_u16 r ;;
    if l =? 0 then DOk (CsRequestNext, r)
    else if l =? 1 then DOk (CsAwaitReply, r)
    else if l =? 2 then '(c, r) <- decC r ;; '(t, r) <- dec_tip r ;; DOk (CsRollForward c t, r)
    else if l =? 3 then '(p, r) <- dec_point r ;; '(t, r) <- dec_tip r ;; DOk (CsRollBackward p t, r)
    else if l =? 4 then '(ps, r) <- d_vec dec_point r ;; DOk (CsFindIntersect ps, r)
    else if l =? 5 then '(p, r) <- dec_point r ;; '(t, r) <- dec_tip r ;; DOk (CsIntersectFound p t, r)
    else if l =? 6 then '(t, r) <- dec_tip r ;; DOk (CsIntersectNotFound t, r)
    else if l =? 7 then DOk (CsDone, r)
    else DErr.
  Definition cs_wf (m : cs_msg C) : bool :=
    match m with
    | CsRollForward c t => wfC c && wf_tip t
    | CsRollBackward p t | CsIntersectFound p t => wf_point p && wf_tip t
    | CsFindIntersect ps => forallb wf_point ps && (len ps <? u64b)
    | CsIntersectNotFound t => wf_tip t
    | _ => true
    end.
End ChainSync.

(* HeaderContent (node-to-node) *)
Record header : Type := Header { hvariant : Z; hprefix : option (Z * Z); hcbor : list Z }.

(* the bytes written; for variant 0 without a byron prefix the encoder returns Err
   after having written the first three heads ([header_enc_err]) *)
Definition enc_header (h : header) : list Z :=
  e_array 2 ++ e_uint (hvariant h) ++
  (if hvariant h =? 0 then
     e_array 2 ++
     match hprefix h with
     | Some (a, b) => e_array 2 ++ e_uint a ++ e_uint b ++ e_cbor_bytes (hcbor h)
     | None => []
     end
   else e_cbor_bytes (hcbor h)).
Definition header_enc_err (h : header) : bool :=
  (hvariant h =? 0) && match hprefix h with None => true | Some _ => false end.
Definition dec_header (bs : list Z) : dres (header * list Z) :=
  '(_, r) <- d_array bs ;; '(v, r) <- d_u8 r ;;
  if v =? 0 then
    '(_, r) <- d_array r ;;
    (* let (a, b): (u8, u64) = d.decode()?  — minicbor's 2-tuple: definite array of exactly 2 *)
    '(l, r) <- d_array r ;;
    if len_is l 2 then
      '(a, r) <- d_u8 r ;; '(b, r) <- d_u64 r ;;
      '(c, r) <- d_anytag_bytes r ;; DOk (Header v (Some (a, b)) c, r)
    else DErr
  else '(c, r) <- d_anytag_bytes r ;; DOk (Header v None c, r).
(* representable: the byron prefix is present exactly for variant 0 *)
Definition wf_header (h : header) : bool :=
  in_u u8b (hvariant h) && wf_bytes (hcbor h) &&
  (if hvariant h =? 0
   then match hprefix h with Some (a, b) => in_u u8b a && in_u u64b b | None => false end
   else match hprefix h with None => true | Some _ => false end).

(* BlockContent (node-to-client) *)
Definition enc_blockc (b : list Z) : list Z := e_cbor_bytes b.
Definition dec_blockc (bs : list Z) : dres (list Z * list Z) := d_anytag_bytes bs.
(* SkippedContent: encodes null, decodes by skipping one item *)
Definition enc_skipped (_ : unit) : list Z := e_null.
Definition dec_skipped (bs : list Z) : dres (unit * list Z) := dbind (d_skip bs) (fun r => DOk (tt, r)).

Definition csh_enc := cs_enc enc_header.
Definition csh_dec := cs_dec dec_header.
Definition csh_wf := cs_wf wf_header.
Definition csh_enc_err (m : cs_msg header) : bool :=
  match m with CsRollForward c _ => header_enc_err c | _ => false end.
Definition csb_enc := cs_enc enc_blockc.
Definition csb_dec := cs_dec dec_blockc.
Definition csb_wf := cs_wf wf_bytes.
Definition css_enc := cs_enc enc_skipped.
Definition css_dec := cs_dec dec_skipped.
Definition css_wf := cs_wf (fun _ : unit => true).

(* ------------------------------------------------------------------ txsubmission *)
Definition txid : Type := (Z * list Z)%type.       (* EraTxId(era, id) *)
Definition txbody : Type := (Z * list Z)%type.     (* EraTxBody(era, cbor) *)

Definition enc_txid (x : txid) : list Z := e_array 2 ++ e_uint (fst x) ++ e_bytes (snd x).
Definition dec_txid (bs : list Z) : dres (txid * list Z) :=
  '(_, r) <- d_array bs ;; '(era, r) <- d_u16 r ;; '(id, r) <- d_bytes r ;; DOk ((era, id), r).
Definition wf_txid (x : txid) : bool := in_u u16b (fst x) && wf_bytes (snd x).

Definition enc_txid_size (x : txid * Z) : list Z := e_array 2 ++ enc_txid (fst x) ++ e_uint (snd x).
Definition dec_txid_size (bs : list Z) : dres ((txid * Z) * list Z) :=
  '(_, r) <- d_array bs ;; '(id, r) <- dec_txid r ;; '(s, r) <- d_u32 r ;; DOk ((id, s), r).
Definition wf_txid_size (x : txid * Z) : bool := wf_txid (fst x) && in_u u32b (snd x).

Definition enc_txbody (x : txbody) : list Z := e_array 2 ++ e_uint (fst x) ++ e_cbor_bytes (snd x).
Definition dec_txbody (bs : list Z) : dres (txbody * list Z) :=
  '(_, r) <- d_array bs ;; '(era, r) <- d_u16 r ;; '(b, r) <- d_tag24_bytes r ;; DOk ((era, b), r).
Definition wf_txbody (x : txbody) : bool := in_u u16b (fst x) && wf_bytes (snd x).

Inductive ts_msg : Type :=
| TsInit | TsRequestTxIds (blocking : bool) (ack req : Z)
| TsReplyTxIds (ids : list (txid * Z)) | TsRequestTxs (ids : list txid)
| TsReplyTxs (txs : list txbody) | TsDone.

Definition ts_enc (m : ts_msg) : list Z :=
  match m with
  | TsInit => e_array 1 ++ e_uint 6
  | TsRequestTxIds b ack req => e_array 4 ++ e_uint 0 ++ e_bool b ++ e_uint ack ++ e_uint req
  | TsReplyTxIds ids => e_array 2 ++ e_uint 1 ++ e_indef_vec enc_txid_size ids
  | TsRequestTxs ids => e_array 2 ++ e_uint 2 ++ e_indef_vec enc_txid ids
  | TsReplyTxs txs => e_array 2 ++ e_uint 3 ++ e_indef_vec enc_txbody txs
  | TsDone => e_array 1 ++ e_uint 4
  end.
Definition ts_dec (bs : list Z) : dres (ts_msg * list Z) :=
  '(_, r) <- d_array bs ;; '(l, r) <- d_u16 r ;;
  if l =? 0 then
    '(b, r) <- d_bool r ;; '(ack, r) <- d_u16 r ;; '(req, r) <- d_u16 r ;; DOk (TsRequestTxIds b ack req, r)
  else if l =? 1 then '(ids, r) <- d_vec dec_txid_size r ;; DOk (TsReplyTxIds ids, r)
  else if l =? 2 then '(ids, r) <- d_vec dec_txid r ;; DOk (TsRequestTxs ids, r)
  else if l =? 3 then '(txs, r) <- d_vec dec_txbody r ;; DOk (TsReplyTxs txs, r)   (* array_iter().collect() *)
  else if l =? 4 then DOk (TsDone, r)
  else if l =? 6 then DOk (TsInit, r)
  else DErr.
Definition ts_wf (m : ts_msg) : bool :=
  match m with
  | TsRequestTxIds _ ack req => in_u u16b ack && in_u u16b req
  | TsReplyTxIds ids => forallb wf_txid_size ids
  | TsRequestTxs ids => forallb wf_txid ids
  | TsReplyTxs txs => forallb wf_txbody txs
  | _ => true
  end.

(* ------------------------------------------------------------------ peersharing *)
(* V6 carries the u128 of Ipv6Addr::to_bits *)
Inductive peer_addr : Type := PaV4 (ip port : Z) | PaV6 (bits port : Z).

Definition v6_word1 (bits : Z) : Z := Z.shiftr bits 96 mod u32b.                 (* (bits >> 96) as u32 *)
Definition v6_word2 (bits : Z) : Z := Z.land (Z.shiftr bits 64) 4294967295.
Definition v6_word3 (bits : Z) : Z := Z.land (Z.shiftr bits 32) 4294967295.
Definition v6_word4 (bits : Z) : Z := Z.land bits 4294967295.
Definition v6_join (w1 w2 w3 w4 : Z) : Z :=
  Z.lor (Z.lor (Z.lor (Z.shiftl w1 96) (Z.shiftl w2 64)) (Z.shiftl w3 32)) w4.

(* [n6] = the array length the V6 arm declares *)
Definition enc_peer_addr_with (n6 : Z) (a : peer_addr) : list Z :=
  match a with
  | PaV4 ip port => e_array 3 ++ e_uint 0 ++ e_uint ip ++ e_uint port
  | PaV6 bits port =>
    e_array n6 ++ e_uint 1 ++ e_uint (v6_word1 bits) ++ e_uint (v6_word2 bits) ++
    e_uint (v6_word3 bits) ++ e_uint (v6_word4 bits) ++ e_uint port
  end.
(* the code before the repair (both stacks, up to /repo commit cdd45fe8): e.array(8)
   followed by six items — kept for [peeraddr_v6_malformed_refuted] *)
Definition enc_peer_addr_pre := enc_peer_addr_with 8.
(* current code: e.array(6) *)
Definition enc_peer_addr := enc_peer_addr_with 6.

Definition dec_peer_addr (pb : Z) (bs : list Z) : dres (peer_addr * list Z) :=
  '(_, r) <- d_array bs ;; '(l, r) <- d_u16 r ;;
  if l =? 0 then '(ip, r) <- d_u32 r ;; '(port, r) <- d_uint pb r ;; DOk (PaV4 ip port, r)
  else if l =? 1 then
    '(w1, r) <- d_u32 r ;; '(w2, r) <- d_u32 r ;; '(w3, r) <- d_u32 r ;; '(w4, r) <- d_u32 r ;;
    '(port, r) <- d_uint pb r ;; DOk (PaV6 (v6_join w1 w2 w3 w4) port, r)
  else DErr.
Definition wf_peer_addr (pb : Z) (a : peer_addr) : bool :=
  match a with
  | PaV4 ip port => in_u u32b ip && in_u pb port
  | PaV6 bits port => in_u u128b bits && in_u pb port
  end.

Inductive ps_msg : Type := PsShareRequest (amount : Z) | PsSharePeers (addrs : list peer_addr) | PsDone.

Definition ps_enc_with (encA : peer_addr -> list Z) (m : ps_msg) : list Z :=
  match m with
  | PsShareRequest n => e_array 2 ++ e_uint 0 ++ e_uint n
  | PsSharePeers l => e_array 2 ++ e_uint 1 ++ e_indef_vec encA l
  | PsDone => e_array 1 ++ e_uint 2
  end.
Definition ps_enc := ps_enc_with enc_peer_addr.
Definition ps_enc_pre := ps_enc_with enc_peer_addr_pre.
Definition ps_dec (pb : Z) (bs : list Z) : dres (ps_msg * list Z) :=
  '(_, r) <- d_array bs ;; '(l, r) <- d_u16 r ;;
  if l =? 0 then '(n, r) <- d_u8 r ;; DOk (PsShareRequest n, r)
  else if l =? 1 then '(a, r) <- d_vec (dec_peer_addr pb) r ;; DOk (PsSharePeers a, r)
  else if l =? 2 then DOk (PsDone, r)
  else DErr.
Definition ps_wf (pb : Z) (m : ps_msg) : bool :=
  match m with
  | PsShareRequest n => in_u u8b n
  | PsSharePeers l => forallb (wf_peer_addr pb) l
  | PsDone => true
  end.

(* ------------------------------------------------------------------ handshake *)
Inductive refuse : Type :=
| RVersionMismatch (vs : list Z) | RDecodeError (v : Z) (msg : list Z) | RRefused (v : Z) (msg : list Z).

Definition enc_refuse (x : refuse) : list Z :=
  match x with
  | RVersionMismatch vs => e_array 2 ++ e_uint 0 ++ e_vec e_uint vs
  | RDecodeError v s => e_array 3 ++ e_uint 1 ++ e_uint v ++ e_str s
  | RRefused v s => e_array 3 ++ e_uint 2 ++ e_uint v ++ e_str s
  end.
Definition dec_refuse (bs : list Z) : dres (refuse * list Z) :=
  '(_, r) <- d_array bs ;; '(l, r) <- d_u16 r ;;
  if l =? 0 then '(vs, r) <- d_vec d_u64 r ;; DOk (RVersionMismatch vs, r)
  else if l =? 1 then '(v, r) <- d_u64 r ;; '(s, r) <- d_str r ;; DOk (RDecodeError v s, r)
  else if l =? 2 then '(v, r) <- d_u64 r ;; '(s, r) <- d_str r ;; DOk (RRefused v s, r)
  else DErr.
Definition wf_refuse (x : refuse) : bool :=
  match x with
  | RVersionMismatch vs => forallb (in_u u64b) vs && (len vs <? u64b)
  | RDecodeError v s | RRefused v s => in_u u64b v && wf_text s
  end.

(* strictly increasing keys: the canonical form of a HashMap<u64, _> / BTreeMap *)
Fixpoint keys_sorted {V} (lo : Z) (l : list (Z * V)) : bool :=
  match l with
  | [] => true
  | (k, _) :: t => (lo <? k) && keys_sorted k t
  end.

Inductive hs_msg (D : Type) : Type :=
| HsPropose (t : list (Z * D)) | HsAccept (v : Z) (d : D) | HsRefuse (x : refuse)
| HsQueryReply (t : list (Z * D)).
Arguments HsPropose {D} t.
Arguments HsAccept {D} v d.
Arguments HsRefuse {D} x.
Arguments HsQueryReply {D} t.

Section Handshake.
  Context {D : Type} (encD : D -> list Z) (decD : list Z -> dres (D * list Z)) (wfD : D -> bool).

  Definition enc_vpair (kv : Z * D) : list Z := e_uint (fst kv) ++ encD (snd kv).
  (* e.map(len); for key in keys().sorted() { e.u64(key); e.encode(value) } *)
  Definition enc_vtable (t : list (Z * D)) : list Z := e_map (len t) ++ concat (map enc_vpair t).
  (* d.map()?.ok_or(..)?; for _ in 0..len { insert(d.u64()?, d.decode()?) } *)
  Definition dec_vtable (bs : list Z) : dres (list (Z * D) * list Z) :=
    '(l, r) <- d_map bs ;;
    match l with
    | None => DErr
    | Some n =>
      '(kvs, r) <- seq_loop (pair_dec d_u64 decD) (budget r) n r ;;
      DOk (bt_of_list Z.compare kvs, r)
    end.
  Definition wf_vtable (t : list (Z * D)) : bool :=
    keys_sorted (-1) t && forallb (fun kv => in_u u64b (fst kv) && wfD (snd kv)) t && (len t <? u64b).

  Definition hs_enc (m : hs_msg D) : list Z :=
    match m with
    | HsPropose t => e_array 2 ++ e_uint 0 ++ enc_vtable t
    | HsAccept v d => e_array 3 ++ e_uint 1 ++ e_uint v ++ encD d
    | HsRefuse x => e_array 2 ++ e_uint 2 ++ enc_refuse x
    | HsQueryReply t => e_array 2 ++ e_uint 3 ++ enc_vtable t
    end.
  Definition hs_dec (bs : list Z) : dres (hs_msg D * list Z) :=
    '(_, r) <- d_array bs ;; '(l, r) <- d_u16 r ;;
    if l =? 0 then '(t, r) <- dec_vtable r ;; DOk (HsPropose t, r)
    else if l =? 1 then '(v, r) <- d_u64 r ;; '(d, r) <- decD r ;; DOk (HsAccept v d, r)
    else if l =? 2 then '(x, r) <- dec_refuse r ;; DOk (HsRefuse x, r)
    else if l =? 3 then '(t, r) <- dec_vtable r ;; DOk (HsQueryReply t, r)
    else DErr.
  Definition hs_wf (m : hs_msg D) : bool :=
    match m with
    | HsPropose t | HsQueryReply t => wf_vtable t
    | HsAccept v d => in_u u64b v && wfD d
    | HsRefuse x => wf_refuse x
    end.
End Handshake.

(* n2n::VersionData *)
Record n2n_data : Type :=
  N2nData { nd_magic : Z; nd_init_only : bool; nd_peer_sharing : option Z; nd_query : option bool }.
Definition enc_n2n (d : n2n_data) : list Z :=
  match nd_peer_sharing d, nd_query d with
  | Some ps, Some q =>
    e_array 4 ++ e_uint (nd_magic d) ++ e_bool (nd_init_only d) ++ e_uint ps ++ e_bool q
  | _, _ => e_array 2 ++ e_uint (nd_magic d) ++ e_bool (nd_init_only d)
  end.
Definition dec_n2n (bs : list Z) : dres (n2n_data * list Z) :=
  '(l, r) <- d_array bs ;; '(magic, r) <- d_u64 r ;; '(io, r) <- d_bool r ;;
  if len_is l 4 then '(ps, r) <- d_u8 r ;; '(q, r) <- d_bool r ;; DOk (N2nData magic io (Some ps) (Some q), r)
  else DOk (N2nData magic io None None, r).
(* representable: peer_sharing and query are both present or both absent *)
Definition wf_n2n (d : n2n_data) : bool :=
  in_u u64b (nd_magic d) &&
  match nd_peer_sharing d, nd_query d with
  | Some ps, Some _ => in_u u8b ps
  | None, None => true
  | _, _ => false
  end.

(* n2c::VersionData(magic, Option<bool>) *)
Definition n2c_data : Type := (Z * option bool)%type.
Definition enc_n2c (d : n2c_data) : list Z :=
  match snd d with
  | None => e_uint (fst d)
  | Some q => e_array 2 ++ e_uint (fst d) ++ e_bool q
  end.
Definition dec_n2c (bs : list Z) : dres (n2c_data * list Z) :=
  dbind (d_datatype bs) (fun t =>
    if ctype_eqb t TU8 || ctype_eqb t TU16 || ctype_eqb t TU32 || ctype_eqb t TU64 then
      '(m, r) <- d_u64 bs ;; DOk ((m, None), r)
    else if ctype_eqb t TArray then
      '(_, r) <- d_array bs ;; '(m, r) <- d_u64 r ;; '(q, r) <- d_bool r ;; DOk ((m, Some q), r)
    else DErr).
Definition wf_n2c (d : n2c_data) : bool := in_u u64b (fst d).

Definition hsn_enc := hs_enc enc_n2n.
Definition hsn_dec := hs_dec dec_n2n.
Definition hsn_wf := hs_wf wf_n2n.
Definition hsc_enc := hs_enc enc_n2c.
Definition hsc_dec := hs_dec dec_n2c.
Definition hsc_wf := hs_wf wf_n2c.

(* ------------------------------------------------------------------ localstate (framing) *)
Inductive ls_msg : Type :=
| LsAcquire (p : option point) | LsFailure (code : Z) (* 0 PointTooOld, 1 PointNotOnChain *)
| LsAcquired | LsQuery (q : list Z) | LsResult (x : list Z)
| LsReAcquire (p : option point) | LsRelease | LsDone.

Definition ls_enc (m : ls_msg) : list Z :=
  match m with
  | LsAcquire (Some p) => e_array 2 ++ e_uint 0 ++ enc_point p
  | LsAcquire None => e_array 1 ++ e_uint 8
  | LsAcquired => e_array 1 ++ e_uint 1
  | LsFailure c => e_array 2 ++ e_uint 2 ++ e_uint c
  | LsQuery q => e_array 2 ++ e_uint 3 ++ q
  | LsResult x => e_array 2 ++ e_uint 4 ++ x
  | LsReAcquire (Some p) => e_array 2 ++ e_uint 6 ++ enc_point p
  | LsReAcquire None => e_array 1 ++ e_uint 9
  | LsRelease => e_array 1 ++ e_uint 5
  | LsDone => e_array 1 ++ e_uint 7
  end.
Definition ls_dec (bs : list Z) : dres (ls_msg * list Z) :=
  '(_, r) <- d_array bs ;; '(l, r) <- d_u16 r ;;
  if l =? 0 then '(p, r) <- dec_point r ;; DOk (LsAcquire (Some p), r)
  else if l =? 8 then DOk (LsAcquire None, r)
  else if l =? 1 then DOk (LsAcquired, r)
  else if l =? 2 then
    '(c, r) <- d_u16 r ;; if (c =? 0) || (c =? 1) then DOk (LsFailure c, r) else DErr
  else if l =? 3 then '(q, r) <- d_raw r ;; DOk (LsQuery q, r)
  else if l =? 4 then '(x, r) <- d_raw r ;; DOk (LsResult x, r)
  else if l =? 5 then DOk (LsRelease, r)
  else if l =? 6 then '(p, r) <- d_option dec_point r ;; DOk (LsReAcquire p, r)   (* Option<Point> *)
  else if l =? 9 then DOk (LsReAcquire None, r)
  else if l =? 7 then DOk (LsDone, r)
  else DErr.
Definition wf_opoint (p : option point) : bool := match p with Some p => wf_point p | None => true end.
Definition ls_wf (m : ls_msg) : bool :=
  match m with
  | LsAcquire p | LsReAcquire p => wf_opoint p
  | LsFailure c => (c =? 0) || (c =? 1)
  | LsQuery q | LsResult q => is_item q
  | _ => true
  end.

(* ------------------------------------------------------------------ localtxsubmission (framing) *)
(* Message<EraTx, Reject>; Reject is a type parameter of the Rust code: here any type whose
   codec reads/writes exactly one item (the harness instantiates it with a raw-item wrapper;
   the real TxValidationError codec is exercised by the oracle-only stream). *)
Inductive ltx_msg : Type :=
| LtxSubmitTx (era : Z) (tx : list Z) | LtxAcceptTx | LtxRejectTx (reason : list Z)
| LtxRejectText (s : list Z)      (* only produced by the decoder's "not an array" fallback *)
| LtxDone.

Definition ltx_enc (m : ltx_msg) : list Z :=
  match m with
  | LtxSubmitTx era tx => e_array 2 ++ e_uint 0 ++ (e_array 2 ++ e_uint era ++ e_cbor_bytes tx)
  | LtxAcceptTx => e_array 1 ++ e_uint 1
  | LtxRejectTx x => e_array 2 ++ e_uint 2 ++ x
  | LtxRejectText _ => []             (* no encoder (String-built rejections are todo!() in Rust) *)
  | LtxDone => e_array 1 ++ e_uint 3
  end.
Definition ltx_dec (bs : list Z) : dres (ltx_msg * list Z) :=
  match d_array bs with
  | DEoi => DEoi
  | DErr =>
    (* "if the first element isn't an array, it's a plutus error: the node sends string data":
       the whole input, as UTF-8 *)
    if bytes_wfb bs && utf8_valid bs then DOk (LtxRejectText bs, tl bs) else DErr   (* array() consumed one byte *)
  | DOk (_, r) =>
    '(l, r) <- d_u16 r ;;
    if l =? 0 then
      '(_, r) <- d_array r ;; '(era, r) <- d_u16 r ;; '(tx, r) <- d_tag24_bytes r ;;
      DOk (LtxSubmitTx era tx, r)
    else if l =? 1 then DOk (LtxAcceptTx, r)
    else if l =? 2 then '(x, r) <- d_raw r ;; DOk (LtxRejectTx x, r)
    else if l =? 3 then DOk (LtxDone, r)
    else DErr
  end.
Definition ltx_wf (m : ltx_msg) : bool :=
  match m with
  | LtxSubmitTx era tx => in_u u16b era && wf_bytes tx
  | LtxRejectTx x => is_item x
  | LtxRejectText _ => false
  | _ => true
  end.

(* ------------------------------------------------------------------ txmonitor *)
Inductive tm_msg : Type :=
| TmDone | TmAcquire | TmAcquired (slot : Z) | TmRelease | TmAwaitAcquire | TmRequestNextTx
| TmResponseNextTx (tx : option (Z * list Z)) | TmRequestHasTx (id : list Z) | TmResponseHasTx (b : bool)
| TmRequestSizeAndCapacity | TmResponseSizeAndCapacity (capacity size ntxs : Z).

(* Tx = (Era, TagWrap<Bytes, 24>): minicbor 2-tuple *)
Definition enc_tm_tx (x : Z * list Z) : list Z := e_array 2 ++ e_uint (fst x) ++ e_cbor_bytes (snd x).
Definition dec_tm_tx (bs : list Z) : dres ((Z * list Z) * list Z) :=
  '(l, r) <- d_array bs ;;
  if len_is l 2 then '(era, r) <- d_u8 r ;; '(b, r) <- d_anytag_bytes r ;; DOk ((era, b), r) else DErr.

Definition tm_enc (m : tm_msg) : list Z :=
  match m with
  | TmDone => e_array 1 ++ e_uint 0
  | TmAcquire => e_array 1 ++ e_uint 1
  | TmAcquired s => e_array 2 ++ e_uint 2 ++ e_uint s
  | TmRelease => e_array 1 ++ e_uint 3
  | TmAwaitAcquire => e_array 1 ++ e_uint 4
  | TmRequestNextTx => e_array 1 ++ e_uint 5
  | TmResponseNextTx None => e_array 1 ++ e_uint 6
  | TmResponseNextTx (Some tx) => e_array 2 ++ e_uint 6 ++ enc_tm_tx tx
  | TmRequestHasTx id => e_array 2 ++ e_uint 7 ++ e_str id
  | TmResponseHasTx b => e_array 2 ++ e_uint 8 ++ e_bool b
  | TmRequestSizeAndCapacity => e_array 1 ++ e_uint 9
  | TmResponseSizeAndCapacity c s n => e_array 2 ++ e_uint 10 ++ (e_array 3 ++ e_uint c ++ e_uint s ++ e_uint n)
  end.
Definition tm_dec (bs : list Z) : dres (tm_msg * list Z) :=
  '(n, r) <- d_array bs ;; '(l, r) <- d_u16 r ;;
  if l =? 0 then DOk (TmDone, r)
  else if l =? 1 then DOk (TmAcquire, r)
  else if l =? 2 then '(s, r) <- d_u64 r ;; DOk (TmAcquired s, r)
  else if l =? 3 then DOk (TmRelease, r)
  else if l =? 4 then DOk (TmAwaitAcquire, r)
  else if l =? 5 then DOk (TmRequestNextTx, r)
  else if l =? 6 then
    if len_is n 1 then DOk (TmResponseNextTx None, r)
    else dbind (d_datatype r) (fun t =>
      if ctype_eqb t TArray || ctype_eqb t TArrayIndef
      then '(tx, r) <- dec_tm_tx r ;; DOk (TmResponseNextTx (Some tx), r)
      else DOk (TmResponseNextTx None, r))
  else if l =? 7 then '(id, r) <- d_str r ;; DOk (TmRequestHasTx id, r)
  else if l =? 8 then '(b, r) <- d_bool r ;; DOk (TmResponseHasTx b, r)
  else if l =? 9 then DOk (TmRequestSizeAndCapacity, r)
  else if l =? 10 then
    '(_, r) <- d_array r ;; '(c, r) <- d_u32 r ;; '(s, r) <- d_u32 r ;; '(k, r) <- d_u32 r ;;
    DOk (TmResponseSizeAndCapacity c s k, r)
  else DErr.
Definition tm_wf (m : tm_msg) : bool :=
  match m with
  | TmAcquired s => in_u u64b s
  | TmResponseNextTx (Some tx) => in_u u8b (fst tx) && wf_bytes (snd tx)
  | TmRequestHasTx id => wf_text id
  | TmResponseSizeAndCapacity c s n => in_u u32b c && in_u u32b s && in_u u32b n
  | _ => true
  end.

(* ------------------------------------------------------------------ leiosnotify (network2) *)
Inductive ln_msg : Type :=
| LnRequestNext | LnBlockAnnouncement (hdr : list Z) | LnBlockOffer (p : point) (size : Z)
| LnBlockTxsOffer (p : point) | LnVotes (vs : list (list Z)) | LnDone.

Definition e_raw (x : list Z) : list Z := x.

Definition ln_enc (m : ln_msg) : list Z :=
  match m with
  | LnRequestNext => e_array 1 ++ e_uint 0
  | LnBlockAnnouncement h => e_array 2 ++ e_uint 1 ++ h
  | LnBlockOffer p s => e_array 3 ++ e_uint 2 ++ enc_point p ++ e_uint s
  | LnBlockTxsOffer p => e_array 2 ++ e_uint 3 ++ enc_point p
  | LnVotes vs => e_array 2 ++ e_uint 4 ++ e_vec e_raw vs
  | LnDone => e_array 1 ++ e_uint 5
  end.
Definition ln_dec (bs : list Z) : dres (ln_msg * list Z) :=
  '(_, r) <- d_array bs ;; '(l, r) <- d_u16 r ;;
  if l =? 0 then DOk (LnRequestNext, r)
  else if l =? 1 then '(h, r) <- d_raw r ;; DOk (LnBlockAnnouncement h, r)
  else if l =? 2 then '(p, r) <- dec_point r ;; '(s, r) <- d_u32 r ;; DOk (LnBlockOffer p s, r)
  else if l =? 3 then '(p, r) <- dec_point r ;; DOk (LnBlockTxsOffer p, r)
  else if l =? 4 then '(vs, r) <- d_vec d_raw r ;; DOk (LnVotes vs, r)
  else if l =? 5 then DOk (LnDone, r)
  else DErr.
Definition ln_wf (m : ln_msg) : bool :=
  match m with
  | LnBlockAnnouncement h => is_item h
  | LnBlockOffer p s => wf_point p && in_u u32b s
  | LnBlockTxsOffer p => wf_point p
  | LnVotes vs => forallb is_item vs && (len vs <? u64b)
  | _ => true
  end.

(* ------------------------------------------------------------------ leiosfetch (network2) *)
(* Bitmaps(BTreeMap<u16, u64>) *)
Definition bitmaps : Type := list (Z * Z).
Definition enc_bmpair (kv : Z * Z) : list Z := e_uint (fst kv) ++ e_uint (snd kv).
Definition enc_bitmaps (b : bitmaps) : list Z := e_begin_map ++ concat (map enc_bmpair b) ++ e_end.
Definition dec_bitmaps (bs : list Z) : dres (bitmaps * list Z) := d_btreemap Z.compare d_u16 d_u64 bs.
Definition wf_bitmaps (b : bitmaps) : bool :=
  keys_sorted (-1) b && forallb (fun kv => in_u u16b (fst kv) && in_u u64b (snd kv)) b.

Inductive lf_msg : Type :=
| LfBlockRequest (p : point) | LfBlock (b : list Z) | LfBlockTxsRequest (p : point) (bm : bitmaps)
| LfBlockTxs (p : point) (bm : bitmaps) (txs : list (list Z)) | LfDone.

Definition lf_enc (m : lf_msg) : list Z :=
  match m with
  | LfBlockRequest p => e_array 2 ++ e_uint 0 ++ enc_point p
  | LfBlock b => e_array 2 ++ e_uint 1 ++ b
  | LfBlockTxsRequest p bm => e_array 3 ++ e_uint 2 ++ enc_point p ++ enc_bitmaps bm
  | LfBlockTxs p bm txs => e_array 4 ++ e_uint 3 ++ enc_point p ++ enc_bitmaps bm ++ e_vec e_raw txs
  | LfDone => e_array 1 ++ e_uint 9
  end.
Definition lf_dec (bs : list Z) : dres (lf_msg * list Z) :=
  '(_, r) <- d_array bs ;; '(l, r) <- d_u16 r ;;
  if l =? 0 then '(p, r) <- dec_point r ;; DOk (LfBlockRequest p, r)
  else if l =? 1 then '(b, r) <- d_raw r ;; DOk (LfBlock b, r)
  else if l =? 2 then '(p, r) <- dec_point r ;; '(bm, r) <- dec_bitmaps r ;; DOk (LfBlockTxsRequest p bm, r)
  else if l =? 3 then
    '(p, r) <- dec_point r ;; '(bm, r) <- dec_bitmaps r ;; '(txs, r) <- d_vec d_raw r ;;
    DOk (LfBlockTxs p bm txs, r)
  else if l =? 9 then DOk (LfDone, r)
  else DErr.
Definition lf_wf (m : lf_msg) : bool :=
  match m with
  | LfBlockRequest p => wf_point p
  | LfBlock b => is_item b
  | LfBlockTxsRequest p bm => wf_point p && wf_bitmaps bm
  | LfBlockTxs p bm txs => wf_point p && wf_bitmaps bm && forallb is_item txs && (len txs <? u64b)
  | LfDone => true
  end.

(* ------------------------------------------------------------------ DMQ: localmsgsubmission / localmsgnotification (pallas-network) *)
Record dmq_msg : Type := DmqMsg {
  dq_id : list Z;
  dq_body : list Z; dq_kes_period : Z; dq_expires_at : Z;            (* DmqMsgPayload *)
  dq_kes_sig : list Z;
  dq_kes_vk : list Z; dq_issue : Z; dq_start_kes : Z; dq_cert_sig : list Z;   (* DmqMsgOperationalCertificate *)
  dq_cold_vk : list Z }.

Definition enc_dmq (m : dmq_msg) : list Z :=
  e_array 5 ++ e_bytes (dq_id m) ++
  (e_array 3 ++ e_bytes (dq_body m) ++ e_uint (dq_kes_period m) ++ e_uint (dq_expires_at m)) ++
  e_bytes (dq_kes_sig m) ++
  (e_array 4 ++ e_bytes (dq_kes_vk m) ++ e_uint (dq_issue m) ++ e_uint (dq_start_kes m) ++ e_bytes (dq_cert_sig m)) ++
  e_bytes (dq_cold_vk m).
Definition dec_dmq (bs : list Z) : dres (dmq_msg * list Z) :=
  '(_, r) <- d_array bs ;; '(id, r) <- d_bytes r ;;
  '(_, r) <- d_array r ;; '(body, r) <- d_bytes r ;; '(kp, r) <- d_u64 r ;; '(ex, r) <- d_u32 r ;;
  '(sig, r) <- d_bytes r ;;
  '(_, r) <- d_array r ;; '(vk, r) <- d_bytes r ;; '(iss, r) <- d_u64 r ;; '(st, r) <- d_u64 r ;; '(cs, r) <- d_bytes r ;;
  '(cold, r) <- d_bytes r ;;
  DOk (DmqMsg id body kp ex sig vk iss st cs cold, r).
Definition wf_dmq (m : dmq_msg) : bool :=
  wf_bytes (dq_id m) && wf_bytes (dq_body m) && in_u u64b (dq_kes_period m) && in_u u32b (dq_expires_at m) &&
  wf_bytes (dq_kes_sig m) && wf_bytes (dq_kes_vk m) && in_u u64b (dq_issue m) && in_u u64b (dq_start_kes m) &&
  wf_bytes (dq_cert_sig m) && wf_bytes (dq_cold_vk m).

(* DmqMsgRejectReason (= DmqMsgValidationError, a transparent wrapper) *)
Inductive dmq_reason : Type := DrInvalid (s : list Z) | DrAlreadyReceived | DrExpired | DrOther (s : list Z).
Definition enc_dmq_reason (x : dmq_reason) : list Z :=
  match x with
  | DrInvalid s => e_array 2 ++ e_uint 0 ++ e_str s
  | DrAlreadyReceived => e_array 1 ++ e_uint 1
  | DrExpired => e_array 1 ++ e_uint 2
  | DrOther s => e_array 2 ++ e_uint 3 ++ e_str s
  end.
Definition dec_dmq_reason (bs : list Z) : dres (dmq_reason * list Z) :=
  '(l, r) <- d_array bs ;;
  match l with
  | None => DErr                                   (* expected definite length array *)
  | Some n =>
    if n =? 0 then DErr else
    '(tag, r) <- d_u8 r ;;
    if (tag =? 0) && (n =? 2) then '(s, r) <- d_str r ;; DOk (DrInvalid s, r)
    else if (tag =? 1) && (n =? 1) then DOk (DrAlreadyReceived, r)
    else if (tag =? 2) && (n =? 1) then DOk (DrExpired, r)
    else if (tag =? 3) && (n =? 2) then '(s, r) <- d_str r ;; DOk (DrOther s, r)
    else DErr
  end.
Definition wf_dmq_reason (x : dmq_reason) : bool :=
  match x with DrInvalid s | DrOther s => wf_text s | _ => true end.

(* localmsgsubmission = localtxsubmission::Message<DmqMsg, DmqMsgValidationError> *)
Inductive lms_msg : Type := LmsSubmit (m : dmq_msg) | LmsAccept | LmsReject (x : dmq_reason) | LmsDone.
Definition lms_enc (m : lms_msg) : list Z :=
  match m with
  | LmsSubmit x => e_array 2 ++ e_uint 0 ++ enc_dmq x
  | LmsAccept => e_array 1 ++ e_uint 1
  | LmsReject x => e_array 2 ++ e_uint 2 ++ enc_dmq_reason x
  | LmsDone => e_array 1 ++ e_uint 3
  end.
Definition lms_dec (bs : list Z) : dres (lms_msg * list Z) :=
  match d_array bs with
  | DEoi => DEoi
  | DErr =>
    (* not an array: the whole input as UTF-8 becomes DmqMsgValidationError::from(String) = Other(s);
       the decoder has consumed the one byte array() read *)
    if bytes_wfb bs && utf8_valid bs then DOk (LmsReject (DrOther bs), tl bs) else DErr
  | DOk (_, r) =>
    '(l, r) <- d_u16 r ;;
    if l =? 0 then '(x, r) <- dec_dmq r ;; DOk (LmsSubmit x, r)
    else if l =? 1 then DOk (LmsAccept, r)
    else if l =? 2 then '(x, r) <- dec_dmq_reason r ;; DOk (LmsReject x, r)
    else if l =? 3 then DOk (LmsDone, r)
    else DErr
  end.
Definition lms_wf (m : lms_msg) : bool :=
  match m with LmsSubmit x => wf_dmq x | LmsReject x => wf_dmq_reason x | _ => true end.

(* localmsgnotification *)
Inductive lmn_msg : Type :=
| LmnRequestNonBlocking | LmnReplyNonBlocking (msgs : list dmq_msg) (has_more : bool)
| LmnRequestBlocking | LmnReplyBlocking (msgs : list dmq_msg) | LmnClientDone.
Definition lmn_enc (m : lmn_msg) : list Z :=
  match m with
  | LmnRequestNonBlocking => e_array 2 ++ e_uint 0 ++ e_bool false
  | LmnReplyNonBlocking l hm => e_array 3 ++ e_uint 1 ++ e_indef_vec enc_dmq l ++ e_bool hm
  | LmnRequestBlocking => e_array 2 ++ e_uint 0 ++ e_bool true
  | LmnReplyBlocking l => e_array 2 ++ e_uint 2 ++ e_indef_vec enc_dmq l
  | LmnClientDone => e_array 1 ++ e_uint 3
  end.
Definition lmn_dec (bs : list Z) : dres (lmn_msg * list Z) :=
  '(_, r) <- d_array bs ;; '(l, r) <- d_u16 r ;;
  if l =? 0 then '(b, r) <- d_bool r ;; DOk (if b then LmnRequestBlocking else LmnRequestNonBlocking, r)
  else if l =? 1 then '(ms, r) <- d_vec dec_dmq r ;; '(hm, r) <- d_bool r ;; DOk (LmnReplyNonBlocking ms hm, r)
  else if l =? 2 then '(ms, r) <- d_vec dec_dmq r ;; DOk (LmnReplyBlocking ms, r)
  else if l =? 3 then DOk (LmnClientDone, r)
  else DErr.
Definition lmn_wf (m : lmn_msg) : bool :=
  match m with LmnReplyNonBlocking l _ | LmnReplyBlocking l => forallb wf_dmq l | _ => true end.

(* ------------------------------------------------------------------ localstate queries_v16: Request framing, parameterless queries *)
(* BlockQuery tags without parameter (tag 34 = the legacy one-element GetBigLedgerPeerSnapshot) *)
Definition lq_nullary (t : Z) : bool :=
  existsb (Z.eqb t) [0; 1; 3; 4; 5; 7; 8; 11; 12; 13; 14; 16; 18; 23; 24; 29; 32; 33; 34; 37].
Inductive lq_req : Type :=
| LqBlock (era tag : Z)        (* Request::LedgerQuery(LedgerQuery::BlockQuery(era, <parameterless query tag>)) *)
| LqHardFork (tag : Z)         (* 0 GetInterpreter, 1 GetCurrentEra *)
| LqSystemStart | LqChainBlockNo | LqChainPoint.
Definition lq_enc (m : lq_req) : list Z :=
  match m with
  | LqBlock era t =>
    (* e.encode((0, q)); q = (0, (era, bq)); bq = array(1) tag *)
    e_array 2 ++ e_uint 0 ++ (e_array 2 ++ e_uint 0 ++ (e_array 2 ++ e_uint era ++ (e_array 1 ++ e_uint t)))
  | LqHardFork t => e_array 2 ++ e_uint 0 ++ (e_array 2 ++ e_uint 2 ++ (e_array 1 ++ e_uint t))
  | LqSystemStart => e_array 1 ++ e_uint 1
  | LqChainBlockNo => e_array 1 ++ e_uint 2
  | LqChainPoint => e_array 1 ++ e_uint 3
  end.
(* the decoder restricted to the parameterless queries: a BlockQuery tag with parameters is
   answered DErr here (its parameter decoders are outside this model) *)
Definition lq_dec (bs : list Z) : dres (lq_req * list Z) :=
  '(_, r) <- d_array bs ;; '(tag, r) <- d_u16 r ;;
  if tag =? 0 then
    '(_, r) <- d_array r ;; '(lt, r) <- d_u16 r ;;
    if lt =? 0 then
      '(l, r) <- d_array r ;;                 (* (era, q): minicbor 2-tuple *)
      if len_is l 2 then
        '(era, r) <- d_u16 r ;; '(n, r) <- d_array r ;; '(t, r) <- d_u16 r ;;
        if lq_nullary t && (negb (t =? 34) || len_is n 1) then DOk (LqBlock era t, r) else DErr
      else DErr
    else if lt =? 2 then
      '(_, r) <- d_array r ;; '(t, r) <- d_u16 r ;;
      if (t =? 0) || (t =? 1) then DOk (LqHardFork t, r) else DErr
    else DErr
  else if tag =? 1 then DOk (LqSystemStart, r)
  else if tag =? 2 then DOk (LqChainBlockNo, r)
  else if tag =? 3 then DOk (LqChainPoint, r)
  else DErr.
Definition lq_wf (m : lq_req) : bool :=
  match m with
  | LqBlock era t => in_u u16b era && lq_nullary t
  | LqHardFork t => (t =? 0) || (t =? 1)
  | _ => true
  end.
