(* C09 model: the hand-written decoders and dispatchers in front of the derive-generated
   codecs, with their panic sites explicit.

     pallas-addresses/src/lib.rs     Address::from_bytes, parse_type_*, slice_to_hash   (C18.Model / C19.Model)
     pallas-addresses/src/varuint.rs read; Pointer::parse                                  (C18.Model)
     pallas-traverse/src/probe.rs    block_era (minicbor Tokenizer: two tokens)
     pallas-traverse/src/block.rs    MultiEraBlock::decode (dispatch on the probe)
     pallas-traverse/src/tx.rs       MultiEraTx::decode (conway, babbage, alonzo, byron in turn)
     pallas-traverse/src/header.rs   MultiEraHeader::decode (dispatch on tag / subtag)
     pallas-network/src/miniprotocols/*/codec.rs, pallas-network2/src/protocol/*.rs
                                     impl Decode for Message: d.array()?; d.u16()?; match label
     pallas-network/src/multiplexer.rs try_decode_message, pallas-network2/src/behavior/mod.rs
                                     try_decode_msg: decode, then buffer.drain(0..position)

   The derive-generated / payload decoders behind the dispatchers are parameters
   (outcome-valued functions); the totality theorem assumes they do not panic and the
   differential run covers them (partial). *)
From PV Require Import Lib.Base Cbor.Item Cbor.Enc Cbor.Dec Cbor.Api.
From PV Require C18.Model C19.Model.
Open Scope Z_scope.

Definition P_SLICE : Z := C18.Model.P_SLICE.   (* slice index out of range *)
Definition P_DRAIN : Z := 2.                   (* Vec::drain(0..pos) with pos > len *)
Definition P_UNREACHABLE : Z := 3.             (* unreachable!() *)
Definition E_CBOR : Z := 20.
Definition E_UNKNOWN : Z := 21.                (* Error::UnknownCbor / unknown variant *)
Definition E_EOI : Z := 22.

(* ---------------------------------------------------------------- addresses *)
Definition address_from_bytes (bs : list Z) : outcome C18.Model.address :=
  C19.Model.address_from_bytes C19.Model.skip_item bs.
Definition pointer_parse (bs : list Z) : outcome (Z * Z * Z) := C18.Model.pointer_parse bs.
Definition varuint_read (bs : list Z) : outcome (Z * list Z) := C18.Model.varuint_read bs.

(* ---------------------------------------------------------------- probe *)
Inductive probe_out : Type := PEbb | PEra (e : Z) | PInconclusive.   (* e = 1 byron .. 7 conway *)

(* Tokenizer::next() is Some(Ok(Token::Array(2))): datatype Array (definite head), any width *)
Definition tok_array2 (bs : list Z) : option (list Z) :=
  match d_datatype bs with
  | DOk t =>
    if ctype_eqb t TArray then
      match d_array bs with
      | DOk (Some n, r) => if n =? 2 then Some r else None
      | _ => None
      end
    else None
  | _ => None
  end.

(* second token is Token::U8(v): datatype U8 (initial byte <= 0x18), then d.u8() *)
Definition block_era (bs : list Z) : probe_out :=
  match tok_array2 bs with
  | None => PInconclusive
  | Some r =>
    match d_datatype r with
    | DOk t =>
      if ctype_eqb t TU8 then
        match d_u8 r with
        | DOk (v, _) => if v =? 0 then PEbb else if v <=? 7 then PEra v else PInconclusive
        | _ => PInconclusive
        end
      else PInconclusive
    | _ => PInconclusive
    end
  end.

Definition probe_code (p : probe_out) : Z :=
  match p with PEbb => 0 | PEra e => e | PInconclusive => -1 end.

(* ---------------------------------------------------------------- channel buffers *)
(* try_decode_message / try_decode_msg: on Ok, pos = decoder.position(); buffer.drain(0..pos).
   [drain] panics when the range end exceeds the length. Result: the bytes left in the buffer. *)
Definition drain_to (buf : list Z) (pos : Z) : outcome (list Z) :=
  if pos <=? len buf then Ok (skipn (Z.to_nat pos) buf) else Panic P_DRAIN.

Section Dispatch.
  (* the codecs behind the dispatchers (derive-generated or hand-written per payload) *)
  Variable era_block : Z -> list Z -> outcome unit.   (* 0 EbBlock, 1 byron::Block, 2..5 alonzo, 6 babbage, 7 conway *)
  Variable era_tx : Z -> list Z -> outcome unit.      (* 0 conway, 1 babbage, 2 alonzo, 3 byron::TxPayload *)
  Variable era_header : Z -> list Z -> outcome unit.  (* 0 EbbHead, 1 BlockHead, 2 alonzo::Header, 3 babbage::Header *)
  (* payload of message [label] of protocol [proto] of stack [stack]: remaining input on success *)
  Variable payload : Z -> Z -> Z -> list Z -> dres (list Z).

  (* MultiEraBlock::decode *)
  Definition block_decode (bs : list Z) : outcome Z :=
    match block_era bs with
    | PInconclusive => Err E_UNKNOWN
    | PEbb => match era_block 0 bs with Ok _ => Ok 0 | Err e => Err e | Panic p => Panic p end
    | PEra e => match era_block e bs with Ok _ => Ok e | Err e' => Err e' | Panic p => Panic p end
    end.

  (* MultiEraTx::decode: the first era that decodes wins; result = position in the chain *)
  Definition tx_decode (bs : list Z) : outcome Z :=
    match era_tx 0 bs with
    | Ok _ => Ok 0
    | Panic p => Panic p
    | Err _ =>
      match era_tx 1 bs with
      | Ok _ => Ok 1
      | Panic p => Panic p
      | Err _ =>
        match era_tx 2 bs with
        | Ok _ => Ok 2
        | Panic p => Panic p
        | Err _ =>
          match era_tx 3 bs with
          | Ok _ => Ok 3
          | Panic p => Panic p
          | Err _ => Err E_UNKNOWN
          end
        end
      end
    end.

  (* MultiEraHeader::decode(tag, subtag, cbor) *)
  Definition header_decode (tag : Z) (subtag : option Z) (bs : list Z) : outcome Z :=
    let k := if tag =? 0 then (match subtag with Some 0 => 0 | _ => 1 end)
             else if tag <=? 4 then 2 else 3 in
    match era_header k bs with Ok _ => Ok k | Err e => Err e | Panic p => Panic p end.

  (* labels a protocol's Message decoder knows *)
  Definition labels (stack proto : Z) : list Z :=
    if proto =? 0 then [0; 1; 2; 3]                               (* handshake *)
    else if proto =? 1 then [0; 1; 2; 3; 4; 5; 6; 7]              (* chainsync *)
    else if proto =? 2 then [0; 1; 2; 3; 4; 5]                    (* blockfetch *)
    else if proto =? 3 then [0; 1; 2; 3; 4; 6]                    (* txsubmission *)
    else if proto =? 4 then [0; 1; 2]                             (* keepalive *)
    else if proto =? 5 then [0; 1; 2]                             (* peersharing *)
    else if proto =? 6 then [0; 1; 2; 3; 4; 5; 6; 7; 8; 9]        (* localstate *)
    else if proto =? 7 then [0; 1; 2; 3; 4; 5; 6; 7; 8; 9; 10]    (* txmonitor *)
    else if proto =? 8 then [0; 1; 2; 3]                          (* localmsgnotification *)
    else if proto =? 9 then [0; 1; 2; 3; 4; 5]                    (* leiosnotify *)
    else if proto =? 10 then [0; 1; 2; 3; 9]                      (* leiosfetch *)
    else [].

  Definition mem (x : Z) (l : list Z) : bool := existsb (Z.eqb x) l.

  (* d.array()?; let label = d.u16()?; *)
  Definition msg_head (bs : list Z) : dres (Z * list Z) :=
    dbind (d_array bs) (fun '(_, r) => d_u16 r).

  (* impl Decode for Message: label, remaining input *)
  Definition msg_decode (stack proto : Z) (bs : list Z) : dres (Z * list Z) :=
    dbind (msg_head bs) (fun '(label, r) =>
      if mem label (labels stack proto) then dbind (payload stack proto label r) (fun r' => DOk (label, r'))
      else DErr).

  (* the same decoder behind a channel buffer: Some(msg) and the buffer keeps the rest,
     or None / Err and the buffer is untouched *)
  Definition channel_decode (stack proto : Z) (buf : list Z) : outcome (option Z * list Z) :=
    match msg_decode stack proto buf with
    | DOk (label, r) =>
      match drain_to buf (len buf - len r) with
      | Ok rest => Ok (Some label, rest)
      | Err e => Err e
      | Panic p => Panic p
      end
    | DEoi => Ok (None, buf)
    | DErr => if stack =? 1 then Err E_CBOR else Ok (None, buf)   (* network2 logs and returns None *)
    end.

  (* ------------------------------------------------------------ entry points *)
  Inductive entry : Type :=
  | EpAddress | EpPointer | EpVarUint | EpProbe
  | EpBlock | EpTx | EpHeader (tag : Z) (subtag : option Z)
  | EpMsg (stack proto : Z) | EpChannel (stack proto : Z).

  Definition class_of {A} (o : outcome A) : outcome Z :=
    match o with Ok _ => Ok 0 | Err e => Err e | Panic p => Panic p end.
  Definition class_of_dres {A} (o : dres A) : outcome Z :=
    match o with DOk _ => Ok 0 | DEoi => Err E_EOI | DErr => Err E_CBOR end.

  Definition model_decode (ep : entry) (bs : list Z) : outcome Z :=
    match ep with
    | EpAddress => class_of (address_from_bytes bs)
    | EpPointer => class_of (pointer_parse bs)
    | EpVarUint => class_of (varuint_read bs)
    | EpProbe => Ok (probe_code (block_era bs))
    | EpBlock => block_decode bs
    | EpTx => tx_decode bs
    | EpHeader tag subtag => header_decode tag subtag bs
    | EpMsg stack proto => class_of_dres (msg_decode stack proto bs)
    | EpChannel stack proto => class_of (channel_decode stack proto bs)
    end.
End Dispatch.

(* ------------------------------------------------- the repaired unreachable!() arms *)
(* localstate/queries_v16/codec.rs: DRep, CommitteeAuthorization, FuturePParams, GovAction,
   HotCredAuthStatus, NextEpochChange: d.array()?; match d.u16()? { known => .., _ => X }.
   Before the repair X = unreachable!(); now X = Err(unknown variant). *)
Definition variant_dispatch (known : list Z) (old : bool) (bs : list Z) : outcome Z :=
  match msg_head bs with
  | DOk (label, _) =>
    if mem label known then Ok label
    else if old then Panic P_UNREACHABLE else Err E_UNKNOWN
  | DEoi => Err E_EOI
  | DErr => Err E_CBOR
  end.

(* ------------------------------------------------- recursion depth (known finding) *)
(* n nested one-element arrays around the integer 1: 81 81 .. 81 01 (n + 1 bytes). The
   recursive decoders (PlutusData, NativeScript, Metadatum: one Rust stack frame per level)
   descend once per level of this item. *)
Fixpoint nest (n : nat) : item :=
  match n with O => UInt W0 1 | S k => Array W0 [nest k] end.
