(* C07 proofs, part 1: the comparison.
   - big-endian facts ([be_lex_is_numeric]), BigInt::cmp = Z.compare of the denoted integers;
   - the lexicographic lift of a total preorder is a total preorder (comparison triples [R3]);
   - PlutusData::cmp is reflexive, antisymmetric and transitive on well-formed data, by nested
     induction ([pdata_ind']);
   - cmp = Equal exactly when the normal forms ([norm]) coincide. *)
From PV Require Import Lib.Base Cbor.Item Cbor.Enc Cbor.Dec Cbor.HeadLaws C07.Model.
Open Scope Z_scope.

(* ------------------------------------------------------------------ big-endian values *)
Lemma be_fold_acc l : forall a,
  fold_left (fun a b => a * 256 + b) l a = a * 256 ^ len l + fold_left (fun a b => a * 256 + b) l 0.
Proof.
  induction l as [|x t IH]; intros a.
  - cbn [fold_left]. unfold len. cbn [length]. change (256 ^ Z.of_nat 0) with 1. lia.
  - cbn [fold_left]. rewrite IH. rewrite (IH (0 * 256 + x)). rewrite len_cons.
    pose proof (len_nonneg t) as Hn. rewrite Z.pow_add_r; [|lia|lia]. change (256 ^ 1) with 256. ring.
Qed.

Lemma be_val_cons x l : be_val (x :: l) = x * 256 ^ len l + be_val l.
Proof.
  unfold be_val. cbn [fold_left]. rewrite be_fold_acc. replace (0 * 256 + x) with x by lia. reflexivity.
Qed.

Lemma be_val_nil : be_val [] = 0.
Proof. reflexivity. Qed.

Lemma pow256_pos n : 0 <= n -> 0 < 256 ^ n.
Proof. intros H. apply Z.pow_pos_nonneg; lia. Qed.

Lemma strip0_val l : be_val (strip0 l) = be_val l.
Proof.
  induction l as [|x t IH]; [reflexivity|]. cbn [strip0]. destruct (x =? 0) eqn:E; [|reflexivity].
  rewrite IH, be_val_cons. assert (x = 0) by lia. subst x. lia.
Qed.

Lemma strip0_wf l : bytes_wf l -> bytes_wf (strip0 l).
Proof.
  induction 1 as [|x t Hx Ht IH]; [constructor|]. cbn [strip0].
  destruct (x =? 0); [exact IH|constructor; assumption].
Qed.

(* no leading zero *)
Definition canon (l : list Z) : Prop := match l with x :: _ => x <> 0 | [] => True end.

Lemma strip0_canon l : canon (strip0 l).
Proof.
  induction l as [|x t IH]; [exact I|]. cbn [strip0]. destruct (x =? 0) eqn:E; [exact IH|]. cbn. lia.
Qed.

Lemma canon_lower l : bytes_wf l -> canon l -> l <> [] -> 256 ^ (len l - 1) <= be_val l.
Proof.
  intros Hwf Hc Hne. destruct l as [|x t]; [congruence|]. cbn in Hc.
  rewrite be_val_cons, len_cons. replace (1 + len t - 1) with (len t) by lia.
  inversion Hwf as [|? ? Hx Ht]; subst. pose proof (be_val_range t Ht) as Hr.
  pose proof (pow256_pos (len t) (len_nonneg t)). unfold byte in Hx. nia.
Qed.

Lemma canon_zero l : bytes_wf l -> canon l -> (l = [] <-> be_val l = 0).
Proof.
  intros Hwf Hc. split; [intros ->; reflexivity|]. intros H0. destruct l as [|x t]; [reflexivity|].
  pose proof (canon_lower (x :: t) Hwf Hc ltac:(discriminate)) as Hl.
  pose proof (pow256_pos (len (x :: t) - 1)) as Hp. rewrite len_cons in *.
  pose proof (len_nonneg t). lia.
Qed.

(* equal-length big-endian strings: lexicographic order = numeric order *)
Lemma be_lex_is_numeric_proof a : forall b,
  bytes_wf a -> bytes_wf b -> len a = len b -> vec_u8_cmp a b = (be_val a ?= be_val b).
Proof.
  unfold vec_u8_cmp. induction a as [|x ta IH]; intros [|y tb] Ha Hb Hl; try (unfold len in Hl; cbn in Hl; lia).
  - reflexivity.
  - inversion Ha as [|? ? Hx Hta]; inversion Hb as [|? ? Hy Htb]; subst.
    rewrite !len_cons in Hl. assert (Hl' : len ta = len tb) by lia.
    cbn [list_cmp]. rewrite !be_val_cons, <- Hl'.
    pose proof (be_val_range ta Hta) as Ra. pose proof (be_val_range tb Htb) as Rb. rewrite <- Hl' in Rb.
    pose proof (pow256_pos (len ta) (len_nonneg ta)) as Hp.
    destruct (Z.compare_spec x y) as [E|L|G].
    + subst y. rewrite IH by assumption. symmetry. apply Z.add_compare_mono_l.
    + symmetry. apply Z.compare_lt_iff. nia.
    + symmetry. apply Z.compare_gt_iff. nia.
Qed.

(* length first, then lexicographic: numeric order of canonical strings *)
Definition len_lex (l r : list Z) : comparison :=
  match len l ?= len r with Eq => vec_u8_cmp l r | o => o end.

Lemma len_lex_numeric l r :
  bytes_wf l -> bytes_wf r -> canon l -> canon r -> len_lex l r = (be_val l ?= be_val r).
Proof.
  intros Hl Hr Cl Cr. unfold len_lex.
  pose proof (be_val_range l Hl) as Rl. pose proof (be_val_range r Hr) as Rr.
  destruct (Z.compare_spec (len l) (len r)) as [E|L|G].
  - apply be_lex_is_numeric_proof; assumption.
  - symmetry. apply Z.compare_lt_iff.
    assert (Hne : r <> []) by (intros ->; unfold len in L; cbn in L; pose proof (len_nonneg l); unfold len in *; lia).
    pose proof (canon_lower r Hr Cr Hne) as Hlow.
    assert (256 ^ len l <= 256 ^ (len r - 1)) by (apply Z.pow_le_mono_r; pose proof (len_nonneg l); lia). lia.
  - symmetry. apply Z.compare_gt_iff.
    assert (Hne : l <> []) by (intros ->; unfold len in G; cbn in G; pose proof (len_nonneg r); unfold len in *; lia).
    pose proof (canon_lower l Hl Cl Hne) as Hlow.
    assert (256 ^ len r <= 256 ^ (len l - 1)) by (apply Z.pow_le_mono_r; pose proof (len_nonneg r); lia). lia.
Qed.

(* ------------------------------------------------------------------ BigInt *)
Lemma to_bytes_spec a :
  wf_bigint a = true ->
  bytes_wf (snd (to_bytes a)) /\ canon (snd (to_bytes a)) /\
  bigint_val a = if fst (to_bytes a) then - be_val (snd (to_bytes a)) else be_val (snd (to_bytes a)).
Proof.
  destruct a as [n|b|b]; cbn [wf_bigint to_bytes fst snd bigint_val]; intros Hwf.
  - split; [apply strip0_wf, be_bytes_wf|]. split; [apply strip0_canon|].
    rewrite strip0_val, be_val_bytes.
    + destruct (n <? 0) eqn:E; lia.
    + unfold int_rangeb in Hwf. change (256 ^ Z.of_nat 16) with 340282366920938463463374607431768211456. lia.
  - apply bytes_wfb_spec in Hwf. split; [apply strip0_wf, Hwf|]. split; [apply strip0_canon|].
    rewrite strip0_val. reflexivity.
  - apply bytes_wfb_spec in Hwf. split; [apply strip0_wf, Hwf|]. split; [apply strip0_canon|].
    rewrite strip0_val. reflexivity.
Qed.

Lemma is_nil_spec {A} (l : list A) : is_nil l = true <-> l = [].
Proof. destruct l; cbn; split; congruence. Qed.

Lemma bigint_cmp_is_Zcompare_proof a b :
  wf_bigint a = true -> wf_bigint b = true ->
  bigint_cmp a b = (bigint_val a ?= bigint_val b).
Proof.
  intros Ha Hb. destruct (to_bytes_spec a Ha) as (Wl & Cl & Va). destruct (to_bytes_spec b Hb) as (Wr & Cr & Vb).
  unfold bigint_cmp. destruct (to_bytes a) as [ln l]. destruct (to_bytes b) as [rn r]. cbn [fst snd] in *.
  rewrite Va, Vb. clear Va Vb.
  pose proof (canon_zero l Wl Cl) as Zl. pose proof (canon_zero r Wr Cr) as Zr.
  pose proof (be_val_range l Wl) as Rl. pose proof (be_val_range r Wr) as Rr.
  destruct (is_nil l && is_nil r) eqn:En.
  - apply andb_true_iff in En as [E1 E2]. apply is_nil_spec in E1, E2. subst. cbn.
    destruct ln, rn; reflexivity.
  - assert (Hnz : be_val l <> 0 \/ be_val r <> 0).
    { apply andb_false_iff in En as [E|E]; [left|right]; intros H0.
      - apply Zl in H0. subst. discriminate.
      - apply Zr in H0. subst. discriminate. }
    destruct ln, rn; cbn [andb negb].
    + rewrite Z.compare_opp. fold (len_lex l r). rewrite len_lex_numeric by assumption.
      symmetry. apply Z.compare_antisym.
    + symmetry. apply Z.compare_lt_iff. lia.
    + symmetry. apply Z.compare_gt_iff. lia.
    + fold (len_lex l r). apply len_lex_numeric; assumption.
Qed.

(* ------------------------------------------------------------------ comparison triples *)
(* R3 (cmp x y) (cmp y z) (cmp x z): what transitivity / compatibility with Eq say about the
   three results *)
Definition R3 (a1 a2 a3 : comparison) : Prop :=
  (a1 = Eq -> a3 = a2) /\ (a2 = Eq -> a3 = a1) /\
  (a1 = Lt -> a2 = Lt -> a3 = Lt) /\ (a1 = Gt -> a2 = Gt -> a3 = Gt).

Lemma lex_match (c r : comparison) : match c with Eq => r | Lt => Lt | Gt => Gt end = lex c r.
Proof. destruct c; reflexivity. Qed.

Lemma R3_lex a1 a2 a3 b1 b2 b3 :
  R3 a1 a2 a3 -> R3 b1 b2 b3 -> R3 (lex a1 b1) (lex a2 b2) (lex a3 b3).
Proof.
  unfold R3. intros (H1 & H2 & H3 & H4) G.
  destruct a1, a2, a3; cbn [lex];
    try exact G; try (exfalso; intuition congruence); intuition congruence.
Qed.

Lemma R3_Zcompare x y z : R3 (x ?= y) (y ?= z) (x ?= z).
Proof.
  unfold R3.
  destruct (Z.compare_spec x y), (Z.compare_spec y z), (Z.compare_spec x z);
    repeat split; intros; try congruence; try lia.
Qed.

Lemma CompOpp_lex a b : CompOpp (lex a b) = lex (CompOpp a) (CompOpp b).
Proof. destruct a; reflexivity. Qed.

Section ListLaws.
  Context {A : Type} (cmp : A -> A -> comparison) (P : A -> Prop).

  Lemma list_cmp_refl l : Forall (fun x => cmp x x = Eq) l -> list_cmp cmp l l = Eq.
  Proof. induction 1 as [|x t Hx _ IH]; [reflexivity|]. cbn [list_cmp]. rewrite Hx. exact IH. Qed.

  Lemma list_cmp_antisym l1 :
    Forall (fun x => forall y, P y -> cmp y x = CompOpp (cmp x y)) l1 ->
    forall l2, Forall P l2 -> list_cmp cmp l2 l1 = CompOpp (list_cmp cmp l1 l2).
  Proof.
    induction 1 as [|x t1 Hx _ IH]; intros [|y t2] H2; try reflexivity.
    inversion H2; subst. cbn [list_cmp]. rewrite !lex_match, CompOpp_lex. rewrite Hx by assumption.
    rewrite IH by assumption. reflexivity.
  Qed.

  Lemma list_cmp_R3 l1 :
    Forall (fun x => forall y z, P y -> P z -> R3 (cmp x y) (cmp y z) (cmp x z)) l1 ->
    forall l2 l3, Forall P l2 -> Forall P l3 ->
    R3 (list_cmp cmp l1 l2) (list_cmp cmp l2 l3) (list_cmp cmp l1 l3).
  Proof.
    induction 1 as [|x t1 Hx _ IH]; intros [|y t2] [|z t3] H2 H3; cbn [list_cmp];
      try (unfold R3; repeat split; intros; congruence).
    inversion H2; inversion H3; subst. rewrite !lex_match. apply R3_lex; [apply Hx|apply IH]; assumption.
  Qed.

  Lemma list_cmp_eq_iff {B} (f : A -> B) l1 :
    Forall (fun x => forall y, P y -> (cmp x y = Eq <-> f x = f y)) l1 ->
    forall l2, Forall P l2 -> (list_cmp cmp l1 l2 = Eq <-> map f l1 = map f l2).
  Proof.
    induction 1 as [|x t1 Hx _ IH]; intros [|y t2] H2; cbn [list_cmp map]; try (split; congruence).
    inversion H2 as [|? ? Hy Ht2]; subst. specialize (Hx y Hy). specialize (IH t2 Ht2).
    destruct (cmp x y) eqn:E.
    - split; intros H.
      + f_equal; [apply Hx; reflexivity|apply IH, H].
      + inversion H. apply IH. assumption.
    - split; [discriminate|]. intros H. inversion H as [[Hf Ht]]. apply Hx in Hf. discriminate.
    - split; [discriminate|]. intros H. inversion H as [[Hf Ht]]. apply Hx in Hf. discriminate.
  Qed.
End ListLaws.

(* ------------------------------------------------------------------ nested induction *)
Section PInd.
  Variable P : pdata -> Prop.
  Hypothesis HC : forall t c i fs, Forall P fs -> P (PConstr t c i fs).
  Hypothesis HM : forall i kvs, Forall (fun kv => P (fst kv) /\ P (snd kv)) kvs -> P (PMap i kvs).
  Hypothesis HA : forall i xs, Forall P xs -> P (PArray i xs).
  Hypothesis HI : forall i, P (PBigInt i).
  Hypothesis HB : forall b, P (PBytes b).

  Fixpoint pdata_ind' (d : pdata) : P d :=
    match d with
    | PConstr t c i fs =>
      HC t c i fs ((fix go (l : list pdata) : Forall P l :=
                      match l with [] => Forall_nil _ | x :: r => Forall_cons _ (pdata_ind' x) (go r) end) fs)
    | PMap i kvs =>
      HM i kvs ((fix go (l : list (pdata * pdata)) : Forall (fun kv => P (fst kv) /\ P (snd kv)) l :=
                   match l with
                   | [] => Forall_nil _
                   | (k, v) :: r => Forall_cons (k, v) (conj (pdata_ind' k) (pdata_ind' v)) (go r)
                   end) kvs)
    | PArray i xs =>
      HA i xs ((fix go (l : list pdata) : Forall P l :=
                  match l with [] => Forall_nil _ | x :: r => Forall_cons _ (pdata_ind' x) (go r) end) xs)
    | PBigInt i => HI i
    | PBytes b => HB b
    end.
End PInd.

(* ------------------------------------------------------------------ well-formedness, unfolded *)
Definition wf (d : pdata) : Prop := wf_pdata d = true.

Lemma forallb_Forall {A} (f : A -> bool) l : forallb f l = true <-> Forall (fun x => f x = true) l.
Proof. rewrite forallb_forall, Forall_forall. reflexivity. Qed.

Lemma wf_constr t c i fs : wf (PConstr t c i fs) -> Forall wf fs.
Proof.
  unfold wf. cbn [wf_pdata]. intros H. apply andb_true_iff in H as [_ H]. apply forallb_Forall in H. exact H.
Qed.
Lemma wf_array i xs : wf (PArray i xs) -> Forall wf xs.
Proof.
  unfold wf. cbn [wf_pdata]. intros H. apply andb_true_iff in H as [_ H]. apply forallb_Forall in H. exact H.
Qed.
Definition wf_pair (kv : pdata * pdata) : Prop := wf (fst kv) /\ wf (snd kv).
Lemma wf_map i kvs : wf (PMap i kvs) -> Forall wf_pair kvs.
Proof.
  unfold wf. cbn [wf_pdata]. intros H. apply andb_true_iff in H as [_ H]. apply forallb_Forall in H.
  eapply Forall_impl; [|exact H]. intros [k v] Hkv. apply andb_true_iff in Hkv. exact Hkv.
Qed.
Lemma wf_bytes b : wf (PBytes b) -> bytes_wf b.
Proof. unfold wf. cbn [wf_pdata]. apply bytes_wfb_spec. Qed.

Lemma pdata_cmp_map i1 k1 i2 k2 : pdata_cmp (PMap i1 k1) (PMap i2 k2) = list_cmp pair_cmp k1 k2.
Proof. reflexivity. Qed.

Lemma pair_cmp_lex pk pv qk qv : pair_cmp (pk, pv) (qk, qv) = lex (pdata_cmp pk qk) (pdata_cmp pv qv).
Proof. unfold pair_cmp. apply lex_match. Qed.

(* ------------------------------------------------------------------ reflexivity *)
Lemma bigint_cmp_refl i : bigint_cmp i i = Eq.
Proof.
  unfold bigint_cmp. destruct (to_bytes i) as [n l]. destruct (is_nil l && is_nil l); [reflexivity|].
  destruct n; cbn [andb negb].
  - rewrite Z.compare_refl. unfold vec_u8_cmp. rewrite list_cmp_refl; [reflexivity|].
    apply Forall_forall. intros x _. apply Z.compare_refl.
  - rewrite Z.compare_refl. unfold vec_u8_cmp. rewrite list_cmp_refl; [reflexivity|].
    apply Forall_forall. intros x _. apply Z.compare_refl.
Qed.

Lemma pdata_cmp_refl_proof a : pdata_cmp a a = Eq.
Proof.
  induction a as [t c i fs IH|i kvs IH|i xs IH|i|b] using pdata_ind'.
  - cbn [pdata_cmp]. rewrite Z.compare_refl. apply list_cmp_refl. exact IH.
  - rewrite pdata_cmp_map. apply list_cmp_refl. eapply Forall_impl; [|exact IH].
    intros [k v] [Hk Hv]. cbn [fst snd] in *. rewrite pair_cmp_lex, Hk, Hv. reflexivity.
  - cbn [pdata_cmp]. apply list_cmp_refl. exact IH.
  - cbn [pdata_cmp]. apply bigint_cmp_refl.
  - cbn [pdata_cmp]. unfold vec_u8_cmp. apply list_cmp_refl. apply Forall_forall. intros x _. apply Z.compare_refl.
Qed.

(* ------------------------------------------------------------------ antisymmetry *)
Lemma vec_u8_cmp_antisym a b : vec_u8_cmp b a = CompOpp (vec_u8_cmp a b).
Proof.
  unfold vec_u8_cmp. apply (list_cmp_antisym Z.compare (fun _ => True)).
  - apply Forall_forall. intros x _ y _. apply Z.compare_antisym.
  - apply Forall_forall. intros; exact I.
Qed.

Lemma pdata_cmp_antisym_proof a : wf a -> forall b, wf b -> pdata_cmp b a = CompOpp (pdata_cmp a b).
Proof.
  induction a as [t c i fs IH|i kvs IH|i xs IH|i|bs] using pdata_ind'; intros Ha b Hb;
    destruct b as [t' c' i' fs'|i' kvs'|i' xs'|i'|bs']; try reflexivity.
  - cbn [pdata_cmp]. rewrite !lex_match, CompOpp_lex. rewrite (Z.compare_antisym (constr_index_tot t c)).
    f_equal. apply (list_cmp_antisym pdata_cmp wf); [|apply (wf_constr _ _ _ _ Hb)].
    pose proof (wf_constr _ _ _ _ Ha) as Hfs. rewrite Forall_forall in *. intros x Hx y Hy. apply IH; auto.
  - rewrite !pdata_cmp_map. apply (list_cmp_antisym pair_cmp wf_pair); [|apply (wf_map _ _ Hb)].
    pose proof (wf_map _ _ Ha) as Hk. rewrite Forall_forall in *. intros [k v] Hx [k' v'] [Hk' Hv'].
    destruct (IH _ Hx) as [IHk IHv]. destruct (Hk _ Hx) as [Wk Wv]. cbn [fst snd] in *.
    rewrite !pair_cmp_lex, CompOpp_lex. rewrite IHk, IHv by assumption. reflexivity.
  - cbn [pdata_cmp]. apply (list_cmp_antisym pdata_cmp wf); [|apply (wf_array _ _ Hb)].
    pose proof (wf_array _ _ Ha) as Hfs. rewrite Forall_forall in *. intros x Hx y Hy. apply IH; auto.
  - cbn [pdata_cmp]. unfold wf in Ha, Hb. cbn [wf_pdata] in Ha, Hb.
    rewrite !bigint_cmp_is_Zcompare_proof by assumption. apply Z.compare_antisym.
  - cbn [pdata_cmp]. apply vec_u8_cmp_antisym.
Qed.

(* ------------------------------------------------------------------ transitivity *)
Lemma vec_u8_cmp_R3 a b c : R3 (vec_u8_cmp a b) (vec_u8_cmp b c) (vec_u8_cmp a c).
Proof.
  unfold vec_u8_cmp. apply (list_cmp_R3 Z.compare (fun _ => True)).
  - apply Forall_forall. intros x _ y z _ _. apply R3_Zcompare.
  - apply Forall_forall. intros; exact I.
  - apply Forall_forall. intros; exact I.
Qed.

Ltac r3_const := unfold R3; repeat split; intros; congruence.

Lemma pdata_cmp_R3 a : wf a -> forall b c, wf b -> wf c ->
  R3 (pdata_cmp a b) (pdata_cmp b c) (pdata_cmp a c).
Proof.
  induction a as [t c0 i fs IH|i kvs IH|i xs IH|i|bs] using pdata_ind'; intros Ha b c Hb Hc;
    destruct b as [t1 c1 i1 fs1|i1 kvs1|i1 xs1|i1|bs1];
    destruct c as [t2 c2 i2 fs2|i2 kvs2|i2 xs2|i2|bs2];
    try (cbn [pdata_cmp]; r3_const).
  - cbn [pdata_cmp]. rewrite !lex_match. apply R3_lex; [apply R3_Zcompare|].
    apply (list_cmp_R3 pdata_cmp wf); [|apply (wf_constr _ _ _ _ Hb)|apply (wf_constr _ _ _ _ Hc)].
    pose proof (wf_constr _ _ _ _ Ha) as Hfs. rewrite Forall_forall in *. intros x Hx y z Hy Hz. apply IH; auto.
  - rewrite !pdata_cmp_map. apply (list_cmp_R3 pair_cmp wf_pair); [|apply (wf_map _ _ Hb)|apply (wf_map _ _ Hc)].
    pose proof (wf_map _ _ Ha) as Hk. rewrite Forall_forall in *.
    intros [k v] Hx [k1 v1] [k2 v2] [Hk1 Hv1] [Hk2 Hv2].
    destruct (IH _ Hx) as [IHk IHv]. destruct (Hk _ Hx) as [Wk Wv]. cbn [fst snd] in *.
    rewrite !pair_cmp_lex. apply R3_lex; [apply IHk|apply IHv]; assumption.
  - cbn [pdata_cmp]. apply (list_cmp_R3 pdata_cmp wf); [|apply (wf_array _ _ Hb)|apply (wf_array _ _ Hc)].
    pose proof (wf_array _ _ Ha) as Hfs. rewrite Forall_forall in *. intros x Hx y z Hy Hz. apply IH; auto.
  - cbn [pdata_cmp]. unfold wf in Ha, Hb, Hc. cbn [wf_pdata] in Ha, Hb, Hc.
    rewrite !bigint_cmp_is_Zcompare_proof by assumption. apply R3_Zcompare.
  - cbn [pdata_cmp]. apply vec_u8_cmp_R3.
Qed.

(* ------------------------------------------------------------------ what equality looks at *)
Lemma vec_u8_cmp_eq a b : vec_u8_cmp a b = Eq <-> a = b.
Proof.
  unfold vec_u8_cmp. rewrite <- (map_id a) at 2. rewrite <- (map_id b) at 2.
  apply (list_cmp_eq_iff Z.compare (fun _ => True) (fun x => x)).
  - apply Forall_forall. intros x _ y _. apply Z.compare_eq_iff.
  - apply Forall_forall. intros; exact I.
Qed.

Lemma pdata_cmp_eq_norm a : wf a -> forall b, wf b -> (pdata_cmp a b = Eq <-> norm a = norm b).
Proof.
  induction a as [t c i fs IH|i kvs IH|i xs IH|i|bs] using pdata_ind'; intros Ha b Hb;
    destruct b as [t' c' i' fs'|i' kvs'|i' xs'|i'|bs']; try (cbn [pdata_cmp norm]; split; discriminate).
  - cbn [pdata_cmp norm].
    assert (HL : list_cmp pdata_cmp fs fs' = Eq <-> map norm fs = map norm fs').
    { apply (list_cmp_eq_iff pdata_cmp wf norm); [|apply (wf_constr _ _ _ _ Hb)].
      pose proof (wf_constr _ _ _ _ Ha) as Hfs. rewrite Forall_forall in *. intros x Hx y Hy. apply IH; auto. }
    destruct (Z.compare_spec (constr_index_tot t c) (constr_index_tot t' c')) as [E|L|G].
    + rewrite E. rewrite HL. split; [intros ->; reflexivity|]. intros H. congruence.
    + split; [discriminate|]. intros H. inversion H. lia.
    + split; [discriminate|]. intros H. inversion H. lia.
  - rewrite pdata_cmp_map. cbn [norm].
    assert (HL : list_cmp pair_cmp kvs kvs' = Eq <->
                 map (fun kv => let '(k, v) := kv in (norm k, norm v)) kvs =
                 map (fun kv => let '(k, v) := kv in (norm k, norm v)) kvs').
    { apply (list_cmp_eq_iff pair_cmp wf_pair); [|apply (wf_map _ _ Hb)].
      pose proof (wf_map _ _ Ha) as Hk. rewrite Forall_forall in *. intros [k v] Hx [k' v'] [Hk' Hv'].
      destruct (IH _ Hx) as [IHk IHv]. destruct (Hk _ Hx) as [Wk Wv]. cbn [fst snd] in *.
      rewrite pair_cmp_lex. specialize (IHk Wk k' Hk'). specialize (IHv Wv v' Hv').
      destruct (pdata_cmp k k') eqn:Ek; cbn [lex].
      - rewrite IHv. split; [intros ->; f_equal; apply IHk; reflexivity|]. intros H. inversion H. reflexivity.
      - split; [discriminate|]. intros H. inversion H as [[H1 H2]]. apply IHk in H1. discriminate.
      - split; [discriminate|]. intros H. inversion H as [[H1 H2]]. apply IHk in H1. discriminate. }
    rewrite HL. split; [intros ->; reflexivity|]. intros H. inversion H. reflexivity.
  - cbn [pdata_cmp norm].
    assert (HL : list_cmp pdata_cmp xs xs' = Eq <-> map norm xs = map norm xs').
    { apply (list_cmp_eq_iff pdata_cmp wf norm); [|apply (wf_array _ _ Hb)].
      pose proof (wf_array _ _ Ha) as Hfs. rewrite Forall_forall in *. intros x Hx y Hy. apply IH; auto. }
    rewrite HL. split; [intros ->; reflexivity|]. intros H. inversion H. reflexivity.
  - cbn [pdata_cmp norm]. unfold wf in Ha, Hb. cbn [wf_pdata] in Ha, Hb.
    rewrite bigint_cmp_is_Zcompare_proof by assumption. rewrite Z.compare_eq_iff.
    split; [intros ->; reflexivity|]. intros H. inversion H. reflexivity.
  - cbn [pdata_cmp norm]. rewrite vec_u8_cmp_eq. split; [intros ->; reflexivity|]. intros H. inversion H. reflexivity.
Qed.

(* definite / indefinite flags do not reach the normal form, nor well-formedness *)
Lemma norm_set_indef f d : norm (set_indef f d) = norm d.
Proof.
  induction d as [t c i fs IH|i kvs IH|i xs IH|i|bs] using pdata_ind'; cbn [set_indef norm]; try reflexivity.
  - f_equal. rewrite map_map. apply map_ext_Forall. exact IH.
  - f_equal. rewrite map_map. apply map_ext_Forall. eapply Forall_impl; [|exact IH].
    intros [k v] [Hk Hv]. cbn [fst snd] in *. rewrite Hk, Hv. reflexivity.
  - f_equal. rewrite map_map. apply map_ext_Forall. exact IH.
Qed.

Lemma forallb_map {A B} (f : B -> bool) (g : A -> B) l : forallb f (map g l) = forallb (fun x => f (g x)) l.
Proof. induction l as [|x t IH]; [reflexivity|]. cbn [map forallb]. rewrite IH. reflexivity. Qed.

Lemma forallb_ext_Forall {A} (f g : A -> bool) l : Forall (fun x => f x = g x) l -> forallb f l = forallb g l.
Proof. induction 1 as [|x t Hx _ IH]; [reflexivity|]. cbn [forallb]. rewrite Hx, IH. reflexivity. Qed.

Lemma len_map {A B} (g : A -> B) l : len (map g l) = len l.
Proof. unfold len. rewrite map_length. reflexivity. Qed.

Lemma wf_set_indef f d : wf_pdata (set_indef f d) = wf_pdata d.
Proof.
  induction d as [t c i fs IH|i kvs IH|i xs IH|i|bs] using pdata_ind'; cbn [set_indef wf_pdata]; try reflexivity.
  - rewrite len_map, forallb_map. f_equal. apply forallb_ext_Forall. exact IH.
  - rewrite len_map, forallb_map. f_equal. apply forallb_ext_Forall. eapply Forall_impl; [|exact IH].
    intros [k v] [Hk Hv]. cbn [fst snd] in *. rewrite Hk, Hv. reflexivity.
  - rewrite len_map, forallb_map. f_equal. apply forallb_ext_Forall. exact IH.
Qed.
