(* C26 — property theorems only. Statements are pinned by vp/check.py. *)
From PV Require Import Lib.Base C26.Model C26.Proofs.
Open Scope Z_scope.

(* every operation sequence (any length, any points, any usize depths), run on
   the deque model from the empty buffer, yields exactly the observations
   (result of each call, size, latest, oldest) of the chain-suffix
   specification, and ends holding exactly the specification's points *)
Theorem buffer_refines_spec : forall ops, Forall op_wf ops ->
  fst (run buf_new ops) = fst (spec_run [] ops) /\
  snd (run buf_new ops) = rev (snd (spec_run [] ops)).
Proof. exact buffer_refines_spec_proof. Qed.

(* the same from any pair of related states *)
Theorem buffer_refines_spec_from : forall ops s, Forall op_wf ops ->
  run (rev s) ops = (fst (spec_run s ops), rev (snd (spec_run s ops))).
Proof. intros ops s H. exact (run_rev ops s H). Qed.

Theorem rollback_keeps_prefix : forall b p x,
  position b p = Some x ->
  exists pre rest, b = pre ++ p :: rest /\ ~ In p pre /\ x = Z.of_nat (length pre) /\
                   roll_back b p = (true, pre ++ [p]).
Proof. exact rollback_keeps_prefix_proof. Qed.

Theorem rollback_unknown_empties : forall b p, ~ In p b -> roll_back b p = (false, []).
Proof. exact rollback_unknown_empties_proof. Qed.

Theorem rollback_handled_iff : forall b p, fst (roll_back b p) = true <-> In p b.
Proof. exact rollback_handled_iff_proof. Qed.

Theorem pop_returns_oldest_beyond_depth : forall b d, 0 <= d ->
  fst (pop_with_depth b d) ++ snd (pop_with_depth b d) = b /\
  size (snd (pop_with_depth b d)) = Z.min d (size b).
Proof. exact pop_split_proof. Qed.

Theorem position_is_first_occurrence : forall b p,
  match position b p with
  | Some x => exists pre rest, b = pre ++ p :: rest /\ ~ In p pre /\ x = Z.of_nat (length pre)
  | None => ~ In p b
  end.
Proof.
  intros b p. destruct (position b p) eqn:E; [exact (position_some b p z E) | apply position_none, E].
Qed.

(* non-vacuity: a history with a duplicate point, a hit, a pop, a miss *)
Example buffer_example :
  let a := PS 1 [1] in let a' := PS 1 [2] in let c := PS 2 [] in
  let ops := [Fwd a; Fwd a'; Fwd c; Fwd a; Fwd PO; Pos a; Back a; Pop 0; Fwd c; Pop 5; Back a'] in
  Forall op_wf ops /\
  run buf_new ops =
   ([ (OFwd, 1, Some a, Some a); (OFwd, 2, Some a', Some a); (OFwd, 3, Some c, Some a);
      (OFwd, 4, Some a, Some a); (OFwd, 5, Some PO, Some a); (OPos (Some 0), 5, Some PO, Some a);
      (OBack true, 1, Some a, Some a); (OPop [a], 0, None, None); (OFwd, 1, Some c, Some c);
      (OPop [], 1, Some c, Some c); (OBack false, 0, None, None) ], []).
Proof. cbn zeta. split; [repeat constructor; cbn; lia | vm_compute; reflexivity]. Qed.
