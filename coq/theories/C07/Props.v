(* C07 — property theorems only. Statements are pinned by vp/check.py. *)
From PV Require Import Lib.Base Cbor.Item Cbor.Enc Cbor.Dec Cbor.Api C07.Model C07.Order C07.Codec.
Open Scope Z_scope.

(* ---- big integers: the comparison is the numeric one ---- *)
Theorem be_lex_is_numeric : forall a b,
  bytes_wf a -> bytes_wf b -> len a = len b -> vec_u8_cmp a b = (be_val a ?= be_val b).
Proof. intros a b. exact (be_lex_is_numeric_proof a b). Qed.

Theorem bigint_cmp_is_Zcompare : forall a b,
  wf_bigint a = true -> wf_bigint b = true -> bigint_cmp a b = (bigint_val a ?= bigint_val b).
Proof. exact bigint_cmp_is_Zcompare_proof. Qed.

(* ---- PlutusData::cmp is a total (pre)order whose Equal is the library's == ---- *)
Theorem pdata_cmp_refl : forall a, pdata_cmp a a = Eq.
Proof. exact pdata_cmp_refl_proof. Qed.

Theorem pdata_cmp_antisym : forall a b,
  wf_pdata a = true -> wf_pdata b = true -> pdata_cmp b a = CompOpp (pdata_cmp a b).
Proof. intros a b Ha Hb. exact (pdata_cmp_antisym_proof a Ha b Hb). Qed.

Theorem pdata_cmp_trans : forall a b c,
  wf_pdata a = true -> wf_pdata b = true -> wf_pdata c = true ->
  pdata_cmp a b = Lt -> pdata_cmp b c = Lt -> pdata_cmp a c = Lt.
Proof. intros a b c Ha Hb Hc. exact (proj1 (proj2 (proj2 (pdata_cmp_R3 a Ha b c Hb Hc)))). Qed.

Theorem pdata_cmp_le_trans : forall a b c,
  wf_pdata a = true -> wf_pdata b = true -> wf_pdata c = true ->
  pdata_cmp a b <> Gt -> pdata_cmp b c <> Gt -> pdata_cmp a c <> Gt.
Proof.
  intros a b c Ha Hb Hc H1 H2. destruct (pdata_cmp_R3 a Ha b c Hb Hc) as (R1 & R2 & R3' & R4).
  destruct (pdata_cmp a b) eqn:E1; [|clear H1|congruence];
    destruct (pdata_cmp b c) eqn:E2; try congruence.
  - rewrite (R1 eq_refl). discriminate.
  - rewrite (R1 eq_refl). discriminate.
  - rewrite (R2 eq_refl). discriminate.
  - rewrite (R3' eq_refl eq_refl). discriminate.
Qed.

Theorem pdata_cmp_eq_compat : forall a b c,
  wf_pdata a = true -> wf_pdata b = true -> wf_pdata c = true ->
  pdata_cmp a b = Eq -> pdata_cmp a c = pdata_cmp b c.
Proof. intros a b c Ha Hb Hc. exact (proj1 (pdata_cmp_R3 a Ha b c Hb Hc)). Qed.

(* ---- what the equality identifies: constructor index, integer value, element lists ---- *)
Theorem pdata_eq_iff_norm : forall a b,
  wf_pdata a = true -> wf_pdata b = true -> (pdata_eqb a b = true <-> norm a = norm b).
Proof.
  intros a b Ha Hb. unfold pdata_eqb. rewrite <- (pdata_cmp_eq_norm a Ha b Hb).
  destruct (pdata_cmp a b); cbn; split; congruence.
Qed.

Theorem pdata_eq_ignores_indef : forall a b,
  wf_pdata a = true -> wf_pdata b = true -> set_indef false a = set_indef false b -> pdata_eqb a b = true.
Proof.
  intros a b Ha Hb H. apply pdata_eq_iff_norm; [assumption|assumption|].
  rewrite <- (norm_set_indef false a), <- (norm_set_indef false b), H. reflexivity.
Qed.

(* ---- round trip ---- *)
Theorem pdata_dec_enc : forall d r,
  wf_pdata d = true ->
  exists d', decode_pdata (enc_pdata d ++ r) = DOk (d', r) /\ pdata_eqb d' d = true.
Proof. intros d r Hwf. exists (canon_anyc d). exact (decode_enc_wf d r Hwf). Qed.

Theorem pdata_dec_enc_exact : forall d r,
  wf_pdata d = true -> strict_pdata d = true -> decode_pdata (enc_pdata d ++ r) = DOk (d, r).
Proof. intros d r Hwf Hst. exact (decode_enc_strict d r Hwf Hst). Qed.

(* ---- 64-byte chunking re-assembles; all chunks but the last are full ---- *)
Theorem bounded_bytes_chunks : forall b,
  bytes_wf b ->
  concat (chunks64 b) = b /\ Forall (fun c => bytes_wf c /\ 1 <= len c <= 64) (chunks64 b) /\
  (forall pre c post, chunks64 b = pre ++ c :: post -> post <> [] -> len c = 64).
Proof. exact chunks64_spec. Qed.

Theorem bounded_bytes_dec_enc : forall b r, bytes_wf b -> d_bounded (enc_bounded b ++ r) = DOk (b, r).
Proof. exact d_bounded_enc. Qed.

(* ---- non-vacuity: concrete well-formed data across the chunk boundaries and tag forms ---- *)
Definition ex_bytes (n : nat) : list Z := map (fun i => Z.of_nat i mod 251) (seq 0 n).
Definition ex_data : pdata :=
  PConstr 102 (Some 7) true
    [PMap false [(PBigInt (BInt (-18446744073709551616)), PBytes (ex_bytes 64));
                 (PBigInt (BigUInt (ex_bytes 65)), PBytes (ex_bytes 65))];
     PArray true [PBytes (ex_bytes 128); PBytes (ex_bytes 129); PBigInt (BigNInt (ex_bytes 200))];
     PConstr 121 None false [PConstr 1400 None true []; PBigInt (BInt 18446744073709551615)]].

Example ex_data_roundtrip :
  wf_pdata ex_data = true /\ strict_pdata ex_data = true /\
  decode_pdata (enc_pdata ex_data) = DOk (ex_data, []) /\
  map (fun c => len c) (chunks64 (ex_bytes 129)) = [64; 64; 1] /\
  map (fun c => len c) (chunks64 (ex_bytes 128)) = [64; 64] /\
  map (fun c => len c) (chunks64 (ex_bytes 65)) = [64; 1].
Proof. repeat split; vm_compute; reflexivity. Qed.

(* mixed representations of equal and adjacent numbers; -0 = +0; leading zeros *)
Example ex_bigint_order :
  bigint_cmp (BInt 0) (BigNInt []) = Eq /\ bigint_cmp (BigNInt [0; 0]) (BigUInt [0]) = Eq /\
  bigint_cmp (BigUInt [0; 0; 1]) (BInt 1) = Eq /\ bigint_cmp (BigNInt [1; 0]) (BInt (-255)) = Lt /\
  bigint_cmp (BInt 18446744073709551615) (BigUInt [1; 0; 0; 0; 0; 0; 0; 0; 0]) = Lt /\
  bigint_val (BigNInt [1; 0]) = -256 /\
  pdata_cmp (PConstr 102 (Some 7) false []) (PConstr 1280 None true []) = Eq.
Proof. repeat split; vm_compute; reflexivity. Qed.
