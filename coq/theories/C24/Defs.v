(* C24 — definitions joining the three views (no proofs):
     Spec.v                 the specification's transition tables (class level)
     Model.v                the hand model of the Rust `apply` functions (with data)
     Generated/ApplyTables  the class-level tables regenerated from the Rust source
   plus the specification step *with data* (what the next state must carry), the
   naming bridge implementation -> specification, and the known-finding cells. *)
From PV Require Import Lib.Base C24.Spec C24.Model Generated.ApplyTables.
From Coq Require Import String.
Open Scope string_scope.

(* ------------------------------------------------ naming bridge (net2 -> spec) *)
Definition state_ren (proto s : string) : string :=
  if String.eqb proto "leiosfetch" then
    (if String.eqb s "AwaitingBlock" then "Block"
     else if String.eqb s "AwaitingBlockTxs" then "BlockTxs" else s)
  else s.

Definition msg_ren (proto m : string) : string :=
  if String.eqb proto "handshake" then
    (if String.eqb m "Propose" then "ProposeVersions"
     else if String.eqb m "Accept" then "AcceptVersion" else m)
  else if String.eqb proto "keepalive" then
    (if String.eqb m "ResponseKeepAlive" then "KeepAliveResponse" else m)
  else if String.eqb proto "txsubmission" then
    (if String.eqb m "RequestTxIds(true)" then "RequestTxIdsBlocking"
     else if String.eqb m "RequestTxIds(false)" then "RequestTxIdsNonBlocking" else m)
  else m.

Definition spec_of (p : proto) : proto_spec :=
  match p with
  | PBlockFetch => blockfetch_spec | PChainSync => chainsync_spec | PHandshake => handshake_spec
  | PKeepAlive => keepalive_spec | PLeiosFetch => leiosfetch_spec | PLeiosNotify => leiosnotify_spec
  | PPeerSharing => peersharing_spec | PTxSubmission => txsubmission_spec
  end.

Fixpoint find_spec (name : string) (l : list proto) : option proto_spec :=
  match l with
  | [] => None
  | p :: r => if String.eqb name (pname p) then Some (spec_of p) else find_spec name r
  end.
Definition net2_spec (name : string) : option proto_spec := find_spec name all_protos.

(* the specification's verdict on an implementation cell, in implementation names *)
Definition spec_cell (proto s m : string) : option (option string) :=
  match net2_spec proto with
  | None => None
  | Some sp => Some (spec_next sp (state_ren proto s) (msg_ren proto m))
  end.

(* ------------------------------------------------------ known-finding cells *)
(* (protocol, state class, message class) — exactly the keys the harness reports.
   txsubmission is structurally different from the specification (replies do not
   return to Idle, the non-blocking request enters the blocking state, Done is never
   accepted); see DESIGN §6 C24. *)
Definition known_cells : list (string * string * string) :=
  [ ("txsubmission", "Idle", "RequestTxIds(false)");
    ("txsubmission", "TxIdsNonBlocking", "ReplyTxIds");
    ("txsubmission", "TxIdsBlocking", "ReplyTxIds");
    ("txsubmission", "TxIdsBlocking", "Done");
    ("txsubmission", "Txs", "ReplyTxs") ].

Definition cell_eqb (a b : string * string * string) : bool :=
  let '(p1, s1, m1) := a in let '(p2, s2, m2) := b in
  String.eqb p1 p2 && String.eqb s1 s2 && String.eqb m1 m2.
Definition known (proto s m : string) : bool := existsb (cell_eqb (proto, s, m)) known_cells.

(* ------------------------------------------------------- generated tables *)
Fixpoint cell_lookup (s m : string) (l : list (string * string * gen_result)) : option gen_result :=
  match l with
  | [] => None
  | (s', m', r) :: rest => if String.eqb s s' && String.eqb m m' then Some r else cell_lookup s m rest
  end.
Definition gen_cell (t : gen_table) (s m : string) : option gen_result := cell_lookup s m (gt_cells t).

(* None: no such cell; Some None: rejected; Some (Some n): accepted, next class n (spec name) *)
Definition gen_next (t : gen_table) (s m : string) : option (option string) :=
  match gen_cell t s m with
  | None => None
  | Some (GOk n) => Some (Some (state_ren (gt_proto t) n))
  | Some (GErr _) => Some None
  end.

Fixpoint find_table (name : string) (l : list gen_table) : option gen_table :=
  match l with
  | [] => None
  | t :: r => if String.eqb name (gt_proto t) then Some t else find_table name r
  end.
Definition table_of (p : proto) : option gen_table := find_table (pname p) apply_tables.

Definition incl_b (a b : list string) : bool := forallb (fun x => mem x b) a.
Definition same_set (a b : list string) : bool := incl_b a b && incl_b b a && Nat.eqb (List.length a) (List.length b).

(* the table speaks about exactly the specification's states and messages, from its initial state *)
Definition table_covers_spec (t : gen_table) : bool :=
  match net2_spec (gt_proto t) with
  | None => false
  | Some sp =>
      same_set (map (state_ren (gt_proto t)) (gt_states t)) (state_names sp) &&
      same_set (map (msg_ren (gt_proto t)) (gt_msgs t)) (sp_msgs sp) &&
      nodupb (gt_states t) && nodupb (gt_msgs t) &&
      String.eqb (state_ren (gt_proto t) (gt_init t)) (sp_init sp)
  end.

Definition opt_str_eqb (a b : option string) : bool :=
  match a, b with
  | None, None => true
  | Some x, Some y => String.eqb x y
  | _, _ => false
  end.

Definition cell_ok (t : gen_table) (s m : string) : bool :=
  known (gt_proto t) s m ||
  match gen_next t s m, spec_cell (gt_proto t) s m with
  | Some a, Some b => opt_str_eqb a b
  | _, _ => false
  end.
Definition table_ok (t : gen_table) : bool :=
  forallb (fun s => forallb (fun m => cell_ok t s m) (gt_msgs t)) (gt_states t).

(* ------------------------------------------------- class view of the model *)
Definition err_name (e : Z) : string :=
  if (e =? 1)%Z then "AgencyIsOurs" else if (e =? 2)%Z then "AgencyIsTheirs"
  else if (e =? 3)%Z then "InvalidInbound" else if (e =? 4)%Z then "InvalidOutbound" else "Other".

Definition class_result (p : proto) (o : outcome (state p)) : gen_result :=
  match o with
  | Ok s => GOk (class p s)
  | Err e => GErr (err_name e)
  | Panic _ => GErr "panic"
  end.

Definition gen_result_eqb (a b : gen_result) : bool :=
  match a, b with
  | GOk x, GOk y => String.eqb x y
  | GErr x, GErr y => String.eqb x y
  | _, _ => false
  end.

Definition outcome_opt {A} (o : outcome A) : option A := match o with Ok a => Some a | _ => None end.
Definition run_opt {A} (r : run_result A) : option A := match r with RunOk a => Some a | RunErr _ _ => None end.

(* ------------------------------------------- the specification step, with data *)
(* One line per transition of the specification; the next state carries the data of the
   message (and, for leios-fetch, the request it answers). Everything else is not permitted. *)
Definition ka_step (s : KA.state) (m : KA.msg) : option KA.state :=
  match s, m with
  | KA.SClient _, KA.MKeepAlive c => Some (KA.SServer c)
  | KA.SServer _, KA.MResponseKeepAlive c => Some (KA.SClient (KA.Response c))
  | KA.SClient _, KA.MDone => Some KA.SDone
  | _, _ => None
  end.

Definition ps_step (s : PS.state) (m : PS.msg) : option PS.state :=
  match s, m with
  | PS.SIdle _, PS.MShareRequest n => Some (PS.SBusy n)
  | PS.SBusy _, PS.MSharePeers l => Some (PS.SIdle (PS.Response l))
  | PS.SIdle _, PS.MDone => Some PS.SDone
  | _, _ => None
  end.

Definition bf_step (s : BF.state) (m : BF.msg) : option BF.state :=
  match s, m with
  | BF.SIdle, BF.MRequestRange r => Some (BF.SBusy r)
  | BF.SIdle, BF.MClientDone => Some BF.SDone
  | BF.SBusy _, BF.MNoBlocks => Some BF.SIdle
  | BF.SBusy _, BF.MStartBatch => Some (BF.SStreaming None)
  | BF.SStreaming _, BF.MBlock b => Some (BF.SStreaming (Some b))
  | BF.SStreaming _, BF.MBatchDone => Some BF.SIdle
  | _, _ => None
  end.

Definition cs_step (s : CS.state) (m : CS.msg) : option CS.state :=
  match s, m with
  | CS.SIdle _, CS.MRequestNext => Some CS.SCanAwait
  | CS.SCanAwait, CS.MAwaitReply => Some CS.SMustReply
  | CS.SCanAwait, CS.MRollForward c t => Some (CS.SIdle (CS.Content c t))
  | CS.SCanAwait, CS.MRollBackward p t => Some (CS.SIdle (CS.Rollback p t))
  | CS.SMustReply, CS.MRollForward c t => Some (CS.SIdle (CS.Content c t))
  | CS.SMustReply, CS.MRollBackward p t => Some (CS.SIdle (CS.Rollback p t))
  | CS.SIdle _, CS.MFindIntersect ps => Some (CS.SIntersect ps)
  | CS.SIntersect _, CS.MIntersectFound p t => Some (CS.SIdle (CS.Intersection p t))
  | CS.SIntersect _, CS.MIntersectNotFound t => Some (CS.SIdle (CS.NoIntersection t))
  | CS.SIdle _, CS.MDone => Some CS.SDone
  | _, _ => None
  end.

Definition hs_step (s : HS.state) (m : HS.msg) : option HS.state :=
  match s, m with
  | HS.SPropose, HS.MPropose t => Some (HS.SConfirm t)
  | HS.SConfirm _, HS.MAccept v d => Some (HS.SDone (HS.Accepted v d))
  | HS.SConfirm _, HS.MRefuse r => Some (HS.SDone (HS.Rejected r))
  | HS.SConfirm _, HS.MQueryReply t => Some (HS.SDone (HS.DQueryReply t))
  | _, _ => None
  end.

(* the implementation's Idle state has no room for the transactions of MsgReplyTxs;
   that cell is part of the known finding *)
Definition tx_step (s : TX.state) (m : TX.msg) : option TX.state :=
  match s, m with
  | TX.SInit, TX.MInit => Some TX.SIdle
  | TX.SIdle, TX.MRequestTxIds true _ _ => Some TX.STxIdsBlocking
  | TX.SIdle, TX.MRequestTxIds false _ _ => Some TX.STxIdsNonBlocking
  | TX.STxIdsBlocking, TX.MReplyTxIds _ => Some TX.SIdle
  | TX.STxIdsNonBlocking, TX.MReplyTxIds _ => Some TX.SIdle
  | TX.SIdle, TX.MRequestTxs _ => Some (TX.STxs [])
  | TX.STxs _, TX.MReplyTxs _ => Some TX.SIdle
  | TX.STxIdsBlocking, TX.MDone => Some TX.SDone
  | _, _ => None
  end.

Definition ln_step (s : LN.state) (m : LN.msg) : option LN.state :=
  match s, m with
  | LN.SIdle _, LN.MRequestNext => Some LN.SBusy
  | LN.SBusy, LN.MBlockAnnouncement h => Some (LN.SIdle (Some (LN.BlockAnnouncement h)))
  | LN.SBusy, LN.MBlockOffer p z => Some (LN.SIdle (Some (LN.BlockOffer p z)))
  | LN.SBusy, LN.MBlockTxsOffer p => Some (LN.SIdle (Some (LN.BlockTxsOffer p)))
  | LN.SBusy, LN.MVotes v => Some (LN.SIdle (Some (LN.Votes v)))
  | LN.SIdle _, LN.MDone => Some LN.SDone
  | _, _ => None
  end.

Definition lf_step (s : LF.state) (m : LF.msg) : option LF.state :=
  match s, m with
  | LF.SIdle _, LF.MBlockRequest p => Some (LF.SAwaitingBlock p)
  | LF.SAwaitingBlock eb, LF.MBlock b => Some (LF.SIdle (Some (eb, LF.RBlock b)))
  | LF.SIdle _, LF.MBlockTxsRequest p b => Some (LF.SAwaitingBlockTxs p b)
  | LF.SAwaitingBlockTxs eb _, LF.MBlockTxs _ _ txs => Some (LF.SIdle (Some (eb, LF.RBlockTxs txs)))
  | LF.SIdle _, LF.MDone => Some LF.SDone
  | _, _ => None
  end.

Definition spec_step (p : proto) : state p -> msg p -> option (state p) :=
  match p with
  | PBlockFetch => bf_step | PChainSync => cs_step | PHandshake => hs_step | PKeepAlive => ka_step
  | PLeiosFetch => lf_step | PLeiosNotify => ln_step | PPeerSharing => ps_step | PTxSubmission => tx_step
  end.

Fixpoint spec_run (p : proto) (s : state p) (ms : list (msg p)) : option (state p) :=
  match ms with
  | [] => Some s
  | m :: r => match spec_step p s m with Some s' => spec_run p s' r | None => None end
  end.

(* the run never steps on a known-finding cell (followed along the specification) *)
Fixpoint avoids_known (p : proto) (s : state p) (ms : list (msg p)) : Prop :=
  match ms with
  | [] => True
  | m :: r => known (pname p) (class p s) (variant p m) = false /\
              match spec_step p s m with Some s' => avoids_known p s' r | None => True end
  end.

(* ---------------------------------------------- representatives of every class *)
Definition pt0 : point := Specific 7 [1; 2]%Z.
Definition tip0 : tip := (pt0, 9%Z).

Definition sample_states (p : proto) : list (state p) :=
  match p with
  | PBlockFetch => [BF.SIdle; BF.SBusy (pt0, pt0); BF.SStreaming None; BF.SDone]
  | PChainSync => [CS.SIdle CS.New; CS.SCanAwait; CS.SMustReply; CS.SIntersect [pt0]; CS.SDone]
  | PHandshake => [HS.SPropose; HS.SConfirm [(13, 1)]%Z; HS.SDone (HS.Accepted 13 1)]
  | PKeepAlive => [KA.SClient KA.Empty; KA.SServer 5; KA.SDone]
  | PLeiosFetch => [LF.SIdle None; LF.SAwaitingBlock pt0; LF.SAwaitingBlockTxs pt0 [(0, 1)]%Z; LF.SDone]
  | PLeiosNotify => [LN.SIdle None; LN.SBusy; LN.SDone]
  | PPeerSharing => [PS.SIdle PS.Empty; PS.SBusy 3; PS.SDone]
  | PTxSubmission => [TX.SInit; TX.SIdle; TX.STxIdsNonBlocking; TX.STxIdsBlocking; TX.STxs []; TX.SDone]
  end.

Definition sample_msgs (p : proto) : list (msg p) :=
  match p with
  | PBlockFetch => [BF.MRequestRange (pt0, pt0); BF.MClientDone; BF.MStartBatch; BF.MNoBlocks; BF.MBlock [1]%Z; BF.MBatchDone]
  | PChainSync => [CS.MRequestNext; CS.MAwaitReply; CS.MRollForward [1]%Z tip0; CS.MRollBackward pt0 tip0;
                   CS.MFindIntersect [pt0]; CS.MIntersectFound pt0 tip0; CS.MIntersectNotFound tip0; CS.MDone]
  | PHandshake => [HS.MPropose [(13, 1)]%Z; HS.MAccept 13 1; HS.MRefuse (HS.VersionMismatch [13]%Z); HS.MQueryReply [(13, 1)]%Z]
  | PKeepAlive => [KA.MKeepAlive 5; KA.MResponseKeepAlive 5; KA.MDone]
  | PLeiosFetch => [LF.MBlockRequest pt0; LF.MBlock [1]%Z; LF.MBlockTxsRequest pt0 [(0, 1)]%Z;
                    LF.MBlockTxs pt0 [(0, 1)]%Z [[1]%Z]; LF.MDone]
  | PLeiosNotify => [LN.MRequestNext; LN.MBlockAnnouncement [1]%Z; LN.MBlockOffer pt0 4; LN.MBlockTxsOffer pt0;
                     LN.MVotes [[1]%Z]; LN.MDone]
  | PPeerSharing => [PS.MShareRequest 3; PS.MSharePeers [PS.V4 1 2]; PS.MDone]
  | PTxSubmission => [TX.MInit; TX.MRequestTxIds true 0 3; TX.MRequestTxIds false 0 3; TX.MReplyTxIds [((6, [1]), 10)]%Z;
                      TX.MRequestTxs [(6, [1])]%Z; TX.MReplyTxs [(6, [2])]%Z; TX.MDone]
  end.
